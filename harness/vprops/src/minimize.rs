//! Delta-minimisation of a failing case at the JSON level: repeatedly drop array elements (the
//! operations of a history, the calls of an iterator script, ...) and shorten bit strings while the
//! case still decodes and still fails with the SAME violation signature.

use crate::engine::{guarded_check, Property};
use crate::stats::Stats;
use serde_json::Value;

fn fails_same<P: Property>(p: &P, v: &Value, sig: &str) -> bool {
    let Ok(case) = serde_json::from_value::<P::Case>(v.clone()) else { return false };
    let mut st = Stats::new();
    match guarded_check(p, &case, &mut st) {
        Err(e) => e.sig == sig,
        Ok(()) => false,
    }
}

/// All JSON-pointer paths to arrays inside `v`.
fn array_paths(v: &Value, prefix: String, out: &mut Vec<String>) {
    match v {
        Value::Array(a) => {
            out.push(prefix.clone());
            for (i, x) in a.iter().enumerate() {
                array_paths(x, format!("{}/{}", prefix, i), out);
            }
        }
        Value::Object(o) => {
            for (k, x) in o {
                array_paths(x, format!("{}/{}", prefix, k.replace('~', "~0").replace('/', "~1")), out);
            }
        }
        _ => {}
    }
}

/// All JSON-pointer paths to strings made only of '0'/'1' (serialised `Bits`, MSB first).
fn bitstring_paths(v: &Value, prefix: String, out: &mut Vec<String>) {
    match v {
        Value::String(s) => {
            if s.len() > 1 && s.bytes().all(|b| b == b'0' || b == b'1') {
                out.push(prefix);
            }
        }
        Value::Array(a) => {
            for (i, x) in a.iter().enumerate() {
                bitstring_paths(x, format!("{}/{}", prefix, i), out);
            }
        }
        Value::Object(o) => {
            for (k, x) in o {
                bitstring_paths(x, format!("{}/{}", prefix, k.replace('~', "~0").replace('/', "~1")), out);
            }
        }
        _ => {}
    }
}

/// Shorten bit strings (drop most significant bits, then clear set bits) while the same
/// signature keeps failing.
fn shrink_bits<P: Property>(p: &P, cur: &mut Value, sig: &str, budget: &mut i32) -> bool {
    let mut progress = false;
    let mut paths = Vec::new();
    bitstring_paths(cur, String::new(), &mut paths);
    for path in paths {
        loop {
            let Some(Value::String(s)) = cur.pointer(&path) else { break };
            let s = s.clone();
            if s.len() <= 1 || *budget <= 0 {
                break;
            }
            let mut done = false;
            for keep in [s.len() / 2, s.len() - 1] {
                if keep == 0 || keep >= s.len() {
                    continue;
                }
                let mut cand = cur.clone();
                if let Some(x) = cand.pointer_mut(&path) {
                    *x = Value::String(s[s.len() - keep..].to_string());
                }
                *budget -= 1;
                if fails_same(p, &cand, sig) {
                    *cur = cand;
                    progress = true;
                    done = true;
                    break;
                }
            }
            if !done {
                break;
            }
        }
    }
    progress
}

pub fn minimize<P: Property>(p: &P, case: Value) -> (Value, Option<String>) {
    let Ok(c0) = serde_json::from_value::<P::Case>(case.clone()) else { return (case, None) };
    let mut st = Stats::new();
    let sig = match guarded_check(p, &c0, &mut st) {
        Err(e) => e.sig,
        Ok(()) => return (case, None),
    };
    let mut cur = case;
    let mut progress = true;
    let mut budget = 3000;
    while progress && budget > 0 {
        progress = shrink_bits(p, &mut cur, &sig, &mut budget);
        let mut paths = Vec::new();
        array_paths(&cur, String::new(), &mut paths);
        // longest arrays first (the op list)
        paths.sort_by_key(|p| std::cmp::Reverse(cur.pointer(p).and_then(|a| a.as_array()).map_or(0, |a| a.len())));
        'outer: for path in paths {
            let len = cur.pointer(&path).and_then(|a| a.as_array()).map_or(0, |a| a.len());
            // try chunks, then single elements, from the end
            let mut chunk = len / 2;
            while chunk >= 1 {
                let mut i = len;
                while i >= chunk {
                    let start = i - chunk;
                    let mut cand = cur.clone();
                    if let Some(Value::Array(a)) = cand.pointer_mut(&path) {
                        if start + chunk <= a.len() {
                            a.drain(start..start + chunk);
                        }
                    }
                    budget -= 1;
                    if budget <= 0 {
                        break 'outer;
                    }
                    if cand != cur && fails_same(p, &cand, &sig) {
                        cur = cand;
                        progress = true;
                        continue 'outer;
                    }
                    i -= chunk;
                }
                chunk /= 2;
            }
        }
    }
    (cur, Some(sig))
}
