//! Runner: regress replay (E0) -> enumeration (E1) -> proptest (E2); evidence; replay mode.

use crate::stats::{hash64, Stats};
use proptest::strategy::{BoxedStrategy, Strategy};
use proptest::test_runner::{Config, RngAlgorithm, RngSeed, TestCaseError, TestError, TestRunner};
use serde::de::DeserializeOwned;
use serde::Serialize;
use std::cell::RefCell;
use std::fmt::Debug;
use std::hash::Hash;
use std::panic::{catch_unwind, AssertUnwindSafe};
use std::path::PathBuf;
use std::sync::atomic::{AtomicBool, Ordering};
use std::sync::Mutex;
use std::time::Instant;

#[derive(Clone, Copy, PartialEq, Eq, Debug)]
pub enum Tier {
    Quick,
    Thorough,
}

impl Tier {
    pub fn name(self) -> &'static str {
        match self {
            Tier::Quick => "quick",
            Tier::Thorough => "thorough",
        }
    }
    /// pick by tier
    pub fn pick<T>(self, quick: T, thorough: T) -> T {
        match self {
            Tier::Quick => quick,
            Tier::Thorough => thorough,
        }
    }
}

/// A property violation. `sig` is a short stable signature (operation / operand-shape class /
/// observer) used to match entries of known_findings.json; `msg` is the human-readable detail.
#[derive(Clone, Debug)]
pub struct Violation {
    pub sig: String,
    pub msg: String,
}
pub type CheckResult = Result<(), Violation>;

#[macro_export]
macro_rules! fail {
    ($sig:expr, $($arg:tt)*) => {
        return Err($crate::engine::Violation { sig: ($sig).to_string(), msg: format!($($arg)*) })
    };
}

#[macro_export]
macro_rules! ensure {
    ($cond:expr, $sig:expr, $($arg:tt)*) => {
        if !($cond) {
            return Err($crate::engine::Violation { sig: ($sig).to_string(), msg: format!($($arg)*) });
        }
    };
}

/// Sharding helper for enumerators: call `mine()` once per unit of an outer loop.
pub struct Shard {
    pub idx: usize,
    pub n: usize,
    counter: usize,
}
impl Shard {
    pub fn new(idx: usize, n: usize) -> Shard {
        Shard { idx, n, counter: 0 }
    }
    pub fn mine(&mut self) -> bool {
        let r = self.counter % self.n == self.idx;
        self.counter += 1;
        r
    }
}

pub trait Property: Sync {
    type Case: Clone + Debug + Serialize + DeserializeOwned + Hash + Send + 'static;
    fn id(&self) -> &'static str;
    /// How cases are generated and what makes one non-trivial.
    fn rule(&self) -> String;
    fn strategy(&self, tier: Tier) -> BoxedStrategy<Self::Case>;
    /// Number of random (proptest) cases per profile.
    fn random_cases(&self, tier: Tier) -> u64;
    /// Deterministic enumerators. Call `f` for each case; stop when it returns false.
    fn enumerate(&self, _tier: Tier, _sh: &mut Shard, _f: &mut dyn FnMut(Self::Case) -> bool) {}
    /// Sub-spaces that `enumerate` covers completely (reported, never as a whole-run claim).
    fn exhaustive_subspaces(&self, _tier: Tier) -> Vec<String> {
        vec![]
    }
    /// The executable property. Must be a pure function of the case.
    fn check(&self, case: &Self::Case, st: &mut Stats) -> CheckResult;
    /// Assumptions / trusted base, for the evidence file.
    fn assumptions(&self) -> Vec<String> {
        vec![]
    }
}

pub struct RunCfg {
    pub tier: Tier,
    pub seed: u64,
    pub profile: String,
    pub threads: usize,
    pub root: PathBuf,
    /// skip enumeration / random (debugging aid)
    pub only: Option<String>,
}

thread_local! {
    static LAST_PANIC: RefCell<String> = RefCell::new(String::new());
    static CATCH_DEPTH: std::cell::Cell<u32> = std::cell::Cell::new(0);
}

struct DepthGuard;
impl DepthGuard {
    fn new() -> DepthGuard {
        CATCH_DEPTH.with(|d| d.set(d.get() + 1));
        DepthGuard
    }
}
impl Drop for DepthGuard {
    fn drop(&mut self) {
        CATCH_DEPTH.with(|d| d.set(d.get().saturating_sub(1)));
    }
}

/// Install a silent panic hook that remembers the message (per thread).
pub fn install_quiet_hook() {
    std::panic::set_hook(Box::new(|info| {
        let msg = if let Some(s) = info.payload().downcast_ref::<&str>() {
            s.to_string()
        } else if let Some(s) = info.payload().downcast_ref::<String>() {
            s.clone()
        } else {
            "<non-string panic>".to_string()
        };
        let loc = info.location().map(|l| format!("{}:{}", l.file(), l.line())).unwrap_or_default();
        // a panic outside any catch region is a harness bug: make it visible
        if CATCH_DEPTH.with(|d| d.get()) == 0 {
            eprintln!("HARNESS PANIC (outside a checked region): {} @ {}", msg, loc);
        }
        LAST_PANIC.with(|p| *p.borrow_mut() = format!("{} @ {}", msg, loc));
    }));
}

pub fn last_panic() -> String {
    LAST_PANIC.with(|p| p.borrow().clone())
}

/// Run a closure, converting a panic into `Err(message)`.
pub fn catch<R>(f: impl FnOnce() -> R) -> Result<R, String> {
    let _g = DepthGuard::new();
    match catch_unwind(AssertUnwindSafe(f)) {
        Ok(r) => Ok(r),
        Err(_) => Err(last_panic()),
    }
}

/// One checked case: panics escaping the check function are violations too.
pub fn guarded_check<P: Property>(p: &P, case: &P::Case, st: &mut Stats) -> CheckResult {
    let _g = DepthGuard::new();
    match catch_unwind(AssertUnwindSafe(|| p.check(case, st))) {
        Ok(r) => r,
        Err(_) => Err(Violation {
            sig: "unexpected-panic".to_string(),
            msg: format!("unexpected panic: {}", last_panic()),
        }),
    }
}

#[derive(Clone, Debug)]
pub struct Failure {
    pub engine: &'static str,
    pub sig: String,
    pub msg: String,
    pub case_json: serde_json::Value,
}

#[derive(Clone, Debug, Default, serde::Deserialize)]
struct KnownFinding {
    status: String,
    property: String,
    #[serde(default)]
    signature: String,
    #[serde(default)]
    what: String,
}
#[derive(Clone, Debug, Default, serde::Deserialize)]
struct KnownFile {
    #[serde(default)]
    findings: Vec<KnownFinding>,
}

fn load_open_findings(root: &PathBuf, id: &str) -> Vec<(String, String)> {
    let path = root.join("known_findings.json");
    let Ok(text) = std::fs::read_to_string(&path) else { return vec![] };
    let Ok(k) = serde_json::from_str::<KnownFile>(&text) else {
        eprintln!("warning: cannot parse {}", path.display());
        return vec![];
    };
    k.findings
        .into_iter()
        .filter(|f| f.status == "open" && f.property == id)
        .map(|f| (f.signature, f.what))
        .collect()
}

pub struct Outcome {
    pub failures: Vec<Failure>,
    pub known_hits: Vec<(String, String, u64)>,
    pub evidence: serde_json::Value,
}

fn derive_seed(seed: u64, shard: u64, salt: u64) -> u64 {
    // splitmix64 over (seed, shard, salt): deterministic, no wall clock, no OS entropy
    let mut z = seed
        .wrapping_mul(0x9E37_79B9_7F4A_7C15)
        .wrapping_add(shard.wrapping_mul(0xBF58_476D_1CE4_E5B9))
        .wrapping_add(salt.wrapping_mul(0x94D0_49BB_1331_11EB))
        .wrapping_add(0x1234_5678_9ABC_DEF1);
    z = (z ^ (z >> 30)).wrapping_mul(0xBF58_476D_1CE4_E5B9);
    z = (z ^ (z >> 27)).wrapping_mul(0x94D0_49BB_1331_11EB);
    z ^ (z >> 31)
}

pub fn run_property<P: Property>(p: &P, cfg: &RunCfg) -> Outcome {
    let t0 = Instant::now();
    let id = p.id();
    let open = load_open_findings(&cfg.root, id);
    let stop = AtomicBool::new(false);
    let failures: Mutex<Vec<Failure>> = Mutex::new(Vec::new());
    let mut total = Stats::new();
    let mut per_engine = serde_json::Map::new();

    // A violation matching an OPEN known finding is excluded (counted), the search continues.
    let is_known = |v: &Violation| open.iter().any(|(s, _)| !s.is_empty() && v.sig.contains(s.as_str()));

    // ---------------- E0: regress replay ----------------
    let mut e0 = 0u64;
    let rdir = cfg.root.join("regress").join(id);
    if let Ok(rd) = std::fs::read_dir(&rdir) {
        let mut files: Vec<PathBuf> = rd.filter_map(|e| e.ok()).map(|e| e.path()).filter(|p| p.extension().map_or(false, |x| x == "json")).collect();
        files.sort();
        for f in files {
            let Ok(text) = std::fs::read_to_string(&f) else { continue };
            let Ok(v) = serde_json::from_str::<serde_json::Value>(&text) else {
                eprintln!("warning: unparsable regress file {}", f.display());
                continue;
            };
            let case_v = v.get("case").cloned().unwrap_or(v.clone());
            let case: P::Case = match serde_json::from_value(case_v.clone()) {
                Ok(c) => c,
                Err(e) => {
                    eprintln!("warning: regress file {} does not decode: {}", f.display(), e);
                    continue;
                }
            };
            e0 += 1;
            let mut st = Stats::new();
            if let Err(v) = guarded_check(p, &case, &mut st) {
                if is_known(&v) {
                    *total.excluded_known.entry(v.sig.clone()).or_insert(0) += 1;
                } else {
                    failures.lock().unwrap().push(Failure { engine: "E0-regress", sig: v.sig, msg: format!("{} [regress file {}]", v.msg, f.display()), case_json: case_v });
                }
            }
            total.merge(st);
        }
    }
    per_engine.insert("E0_regress_replayed".into(), e0.into());

    // ---------------- E1: enumeration ----------------
    let nthreads = cfg.threads.max(1);
    if cfg.only.as_deref() != Some("random") {
        let results: Vec<Stats> = std::thread::scope(|s| {
            let handles: Vec<_> = (0..nthreads)
                .map(|i| {
                    let stop = &stop;
                    let failures = &failures;
                    let is_known = &is_known;
                    s.spawn(move || {
                        let mut st = Stats::new();
                        st.light = true;
                        let mut sh = Shard::new(i, nthreads);
                        let mut f = |case: P::Case| -> bool {
                            if stop.load(Ordering::Relaxed) {
                                return false;
                            }
                            match guarded_check(p, &case, &mut st) {
                                Ok(()) => true,
                                Err(v) => {
                                    if is_known(&v) {
                                        *st.excluded_known.entry(v.sig.clone()).or_insert(0) += 1;
                                        true
                                    } else {
                                        let cj = serde_json::to_value(&case).unwrap_or(serde_json::Value::Null);
                                        failures.lock().unwrap().push(Failure { engine: "E1-enumeration", sig: v.sig, msg: v.msg, case_json: cj });
                                        stop.store(true, Ordering::Relaxed);
                                        false
                                    }
                                }
                            }
                        };
                        p.enumerate(cfg.tier, &mut sh, &mut f);
                        st
                    })
                })
                .collect();
            handles.into_iter().map(|h| h.join().expect("enumeration thread died")).collect()
        });
        let mut e1 = 0u64;
        for st in results {
            e1 += st.evaluations;
            total.merge(st);
        }
        per_engine.insert("E1_enumerated".into(), e1.into());
    }

    // ---------------- E2: proptest ----------------
    let enum_failed = !failures.lock().unwrap().is_empty();
    if cfg.only.as_deref() != Some("enum") && !enum_failed {
        let cases = p.random_cases(cfg.tier);
        let per = (cases + nthreads as u64 - 1) / nthreads as u64;
        let results: Vec<Stats> = std::thread::scope(|s| {
            let handles: Vec<_> = (0..nthreads)
                .map(|i| {
                    let failures = &failures;
                    let is_known = &is_known;
                    let tier = cfg.tier;
                    let seed = cfg.seed;
                    s.spawn(move || {
                        let st = RefCell::new(Stats::new());
                        let mut seed_bytes = [0u8; 32];
                        for k in 0..4 {
                            seed_bytes[k * 8..k * 8 + 8].copy_from_slice(&derive_seed(seed, i as u64, k as u64).to_le_bytes());
                        }
                        let config = Config {
                            cases: per as u32,
                            failure_persistence: None,
                            max_shrink_iters: 20_000,
                            rng_algorithm: RngAlgorithm::ChaCha,
                            rng_seed: RngSeed::Fixed(derive_seed(seed, i as u64, 99)),
                            ..Config::default()
                        };
                        let _ = seed_bytes;
                        let mut runner = TestRunner::new(config);
                        let strat = p.strategy(tier);
                        let res = runner.run(&strat, |case| {
                            let mut stm = st.borrow_mut();
                            match guarded_check(p, &case, &mut stm) {
                                Ok(()) => Ok(()),
                                Err(v) => {
                                    if is_known(&v) {
                                        if !stm.frozen {
                                            *stm.excluded_known.entry(v.sig.clone()).or_insert(0) += 1;
                                        }
                                        Ok(())
                                    } else {
                                        // from now on the closure is re-run by the shrinker: stop counting
                                        stm.frozen = true;
                                        Err(TestCaseError::fail(format!("{}|{}", v.sig, v.msg)))
                                    }
                                }
                            }
                        });
                        if let Err(e) = res {
                            match e {
                                TestError::Fail(_reason, case) => {
                                    let mut scratch = Stats::new();
                                    scratch.frozen = true;
                                    let (sig, msg) = match guarded_check(p, &case, &mut scratch) {
                                        Err(v) => (v.sig, v.msg),
                                        Ok(()) => ("nondeterministic".to_string(), "shrunk case passed on re-run (check is not a pure function of the case?)".to_string()),
                                    };
                                    let cj = serde_json::to_value(&case).unwrap_or(serde_json::Value::Null);
                                    failures.lock().unwrap().push(Failure { engine: "E2-proptest", sig, msg, case_json: cj });
                                }
                                TestError::Abort(r) => {
                                    eprintln!("proptest aborted: {}", r);
                                    failures.lock().unwrap().push(Failure { engine: "E2-proptest", sig: "generator-abort".into(), msg: format!("proptest aborted: {}", r), case_json: serde_json::Value::Null });
                                }
                            }
                        }
                        let mut out = st.into_inner();
                        out.frozen = false;
                        out
                    })
                })
                .collect();
            handles.into_iter().map(|h| h.join().expect("proptest thread died")).collect()
        });
        let mut e2 = 0u64;
        for st in results {
            e2 += st.evaluations;
            total.merge(st);
        }
        per_engine.insert("E2_random".into(), e2.into());
    }

    let failures = failures.into_inner().unwrap();
    let known_hits: Vec<(String, String, u64)> = open
        .iter()
        .map(|(s, w)| (s.clone(), w.clone(), total.excluded_known.iter().filter(|(k, _)| k.contains(s.as_str())).map(|(_, v)| *v).sum()))
        .collect();

    let wall = t0.elapsed().as_secs_f64();
    let evidence = serde_json::json!({
        "property_id": id,
        "tier": cfg.tier.name(),
        "seed": cfg.seed,
        "profile": cfg.profile,
        "evaluations": total.evaluations,
        "distinct_nontrivial": total.nontrivial.len(),
        "rule": p.rule(),
        "samples": total.samples_for_evidence(),
        "classes": total.classes,
        "engines": per_engine,
        "exhaustive_subspaces": p.exhaustive_subspaces(cfg.tier),
        "excluded_known_findings": total.excluded_known,
        "assumptions": p.assumptions(),
        "violations": failures.len(),
        "wall_s": wall,
    });
    Outcome { failures, known_hits, evidence }
}

/// Write replay files and print VIOLATION / KNOWN-FINDING lines. Returns the exit code.
/// Messages about megabit vectors are cut (the replay file holds the whole case).
pub fn clip(s: &str, max: usize) -> String {
    if s.len() <= max {
        return s.to_string();
    }
    let mut e = max;
    while !s.is_char_boundary(e) {
        e -= 1;
    }
    format!("{} ...[{} more bytes]", &s[..e], s.len() - e)
}

pub fn report(id: &str, cfg: &RunCfg, out: &Outcome) -> i32 {
    for (sig, what, n) in &out.known_hits {
        println!("KNOWN-FINDING: property={} {} [signature {}; {} generated cases excluded in this run, profile {}]", id, what, sig, n, cfg.profile);
    }
    if out.failures.is_empty() {
        return 0;
    }
    let dir = cfg.root.join("replays").join(id);
    let _ = std::fs::create_dir_all(&dir);
    // one line per distinct violation signature (the smallest case found for it), at most 5
    let mut by_sig: std::collections::BTreeMap<String, &Failure> = std::collections::BTreeMap::new();
    for f in &out.failures {
        let size = f.case_json.to_string().len();
        match by_sig.get(&f.sig) {
            Some(g) if g.case_json.to_string().len() <= size => {}
            _ => {
                by_sig.insert(f.sig.clone(), f);
            }
        }
    }
    let mut chosen: Vec<&Failure> = by_sig.into_values().collect();
    chosen.sort_by_key(|f| f.case_json.to_string().len());
    chosen.truncate(5);
    let mut seen = std::collections::BTreeSet::new();
    for f in chosen {
        let h = hash64(&f.case_json.to_string());
        if !seen.insert(h) {
            continue;
        }
        let path = dir.join(format!("{:016x}.json", h));
        let doc = serde_json::json!({
            "property": id,
            "engine": f.engine,
            "profile": cfg.profile,
            "tier": cfg.tier.name(),
            "seed": cfg.seed,
            "signature": f.sig,
            "message": clip(&f.msg, 20000),
            "case": f.case_json,
        });
        let _ = std::fs::write(&path, serde_json::to_string_pretty(&doc).unwrap());
        println!("VIOLATION property={} replay={}", id, path.display());
        println!("  engine={} profile={} signature={}", f.engine, cfg.profile, f.sig);
        println!("  {}", clip(&f.msg, 4000).replace('\n', "\n  "));
    }
    1
}

/// Replay one saved case (no generator involved). Returns the exit code.
pub fn replay<P: Property>(p: &P, path: &str, profile: &str) -> i32 {
    let text = match std::fs::read_to_string(path) {
        Ok(t) => t,
        Err(e) => {
            eprintln!("cannot read {}: {}", path, e);
            return 2;
        }
    };
    let v: serde_json::Value = match serde_json::from_str(&text) {
        Ok(v) => v,
        Err(e) => {
            eprintln!("cannot parse {}: {}", path, e);
            return 2;
        }
    };
    let case_v = v.get("case").cloned().unwrap_or(v.clone());
    let case: P::Case = match serde_json::from_value(case_v) {
        Ok(c) => c,
        Err(e) => {
            eprintln!("{} does not decode as a {} case: {}", path, p.id(), e);
            return 2;
        }
    };
    let mut st = Stats::new();
    match guarded_check(p, &case, &mut st) {
        Ok(()) => {
            println!("replay {} [{}]: property {} holds on this case", path, profile, p.id());
            0
        }
        Err(v) => {
            println!("VIOLATION property={} replay={}", p.id(), path);
            println!("  profile={} signature={}", profile, v.sig);
            println!("  {}", v.msg.replace('\n', "\n  "));
            println!("  case: {:?}", case);
            1
        }
    }
}

/// Helper for strategies: box it.
pub fn boxed<S: Strategy + 'static>(s: S) -> BoxedStrategy<S::Value> {
    s.boxed()
}
