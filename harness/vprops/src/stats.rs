//! Per-run measurement: how many cases, how many distinct non-trivial ones, class counters, samples.

use serde::Serialize;
use std::collections::hash_map::DefaultHasher;
use std::collections::{BTreeMap, HashSet};
use std::hash::{Hash, Hasher};

#[derive(Default)]
pub struct Stats {
    /// cases executed
    pub evaluations: u64,
    /// 64-bit hashes of the distinct non-trivial cases
    pub nontrivial: HashSet<u64>,
    /// count of non-trivial cases seen (with repeats), drives deterministic sampling
    nontrivial_seen: u64,
    pub classes: BTreeMap<String, u64>,
    pub samples: Vec<serde_json::Value>,
    /// violations matching an OPEN known finding (excluded, counted)
    pub excluded_known: BTreeMap<String, u64>,
    /// when true nothing is recorded (used while proptest shrinks a failure)
    pub frozen: bool,
    /// set by the engine during enumeration (E1): checks use the light battery there
    pub light: bool,
    want_sample: bool,
    big_sample: Option<serde_json::Value>,
}

pub fn hash64<T: Hash>(t: &T) -> u64 {
    let mut h = DefaultHasher::new();
    t.hash(&mut h);
    h.finish()
}

impl Stats {
    pub fn new() -> Stats {
        Stats::default()
    }

    /// Count one occurrence of a class label.
    pub fn class(&mut self, name: &str) {
        if self.frozen {
            return;
        }
        *self.classes.entry(name.to_string()).or_insert(0) += 1;
    }

    pub fn class_if(&mut self, cond: bool, name: &str) {
        if cond {
            self.class(name);
        }
    }

    /// Record one executed case; `nontrivial` by the property's stated rule.
    pub fn note<C: Hash + Serialize>(&mut self, case: &C, nontrivial: bool) {
        if self.frozen {
            return;
        }
        self.evaluations += 1;
        if nontrivial {
            self.nontrivial_seen += 1;
            let fresh = self.nontrivial.insert(hash64(case));
            let k = self.nontrivial_seen;
            // deterministic sampling; very large cases (e.g. 65 539-bit operands) are kept only as a
            // fallback so that the samples in the evidence stay readable
            if fresh && self.samples.len() < 5 && (self.want_sample || k == 1 || k == 10 || k == 100 || k == 1000 || k == 10000) {
                if let Ok(v) = serde_json::to_value(case) {
                    if v.to_string().len() <= 1500 {
                        self.samples.push(v);
                        self.want_sample = false;
                    } else {
                        if self.big_sample.is_none() {
                            self.big_sample = Some(v);
                        }
                        self.want_sample = true;
                    }
                }
            }
        }
    }

    /// Samples for the evidence: the readable ones, or the first large one if there is nothing else.
    pub fn samples_for_evidence(&self) -> Vec<serde_json::Value> {
        if self.samples.is_empty() {
            self.big_sample.iter().cloned().collect()
        } else {
            self.samples.clone()
        }
    }

    pub fn merge(&mut self, other: Stats) {
        self.evaluations += other.evaluations;
        self.nontrivial_seen += other.nontrivial_seen;
        if self.nontrivial.is_empty() {
            self.nontrivial = other.nontrivial;
        } else {
            self.nontrivial.extend(other.nontrivial);
        }
        for (k, v) in other.classes {
            *self.classes.entry(k).or_insert(0) += v;
        }
        for (k, v) in other.excluded_known {
            *self.excluded_known.entry(k).or_insert(0) += v;
        }
        for s in other.samples {
            if self.samples.len() < 6 {
                self.samples.push(s);
            }
        }
        if self.big_sample.is_none() {
            self.big_sample = other.big_sample;
        }
    }
}
