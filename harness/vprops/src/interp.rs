//! History interpreter (DESIGN.md 2, C03/C07/C18): applies each generated operation to the real
//! subject and to the bit-list model.  Arguments are fractions resolved against the current
//! state, so every precondition holds by construction and nothing is filtered.

use crate::battery::{battery_z, Strength};
use crate::engine::{catch, Violation};
use crate::gen::frac;
use crate::props::c06::model_rot;
use crate::props::c20::model_shift;
use crate::props::common::*;
use crate::spec::*;
use serde::{Deserialize, Serialize};
use vcore::*;

/// How the size hint of a generated iterator relates to its true length (always honest).
#[derive(Clone, Copy, Debug, Hash, PartialEq, Eq, Serialize, Deserialize)]
pub enum Hint {
    Exact,
    Zero,
    Partial,
    /// honest but useless: no lower bound, an astronomically loose upper bound
    LooseUpper,
}

pub struct HintIter<'a> {
    bits: &'a [bool],
    pos: usize,
    hint: Hint,
}
impl<'a> HintIter<'a> {
    pub fn new(bits: &'a [bool], hint: Hint) -> Self {
        HintIter { bits, pos: 0, hint }
    }
}
impl Iterator for HintIter<'_> {
    type Item = Bit;
    fn next(&mut self) -> Option<Bit> {
        let r = self.bits.get(self.pos).map(|&b| bit(b));
        if r.is_some() {
            self.pos += 1;
        }
        r
    }
    fn size_hint(&self) -> (usize, Option<usize>) {
        let rem = self.bits.len() - self.pos;
        match self.hint {
            Hint::Exact => (rem, Some(rem)),
            Hint::Zero => (0, None),
            Hint::Partial => (rem / 2, None),
            // (usize::MAX, not a merely enormous bound: an implementation that reserves the upper
            // bound then overflows - a catchable panic where overflow checks are on - instead of
            // asking the allocator for exabytes, which aborts the whole process)
            Hint::LooseUpper => (0, Some(usize::MAX)),
        }
    }
}

/// Initial constructor of a history.
#[derive(Clone, Debug, Hash, PartialEq, Eq, Serialize, Deserialize)]
pub enum Init {
    Zeros(usize),
    Ones(usize),
    Repeat(bool, usize),
    /// any provenance of `spec::Prov` (from_binary, pushed, collected, converted, read, ...)
    Built(Bits, Prov),
    FromHex(String),
    FromBytes(Vec<u8>, bool),
    FromNat(Nat),
    FromSlice(NatTy, Vec<Nat>),
    WithCapacity(usize),
}

#[derive(Clone, Debug, Hash, PartialEq, Eq, Serialize, Deserialize)]
pub enum Op {
    Push(bool),
    Pop,
    Set(u16, bool),
    /// grow by a fraction of the allowed growth, fill bit
    Grow(u16, bool),
    /// resize to an absolute length (clipped to the capacity of fixed types); used by the
    /// enumerated "unbounded growth" cases
    ResizeTo(usize, bool),
    /// resize down to a fraction of the current length
    ShrinkTo(u16),
    Truncate(u16),
    SignExtend(u16),
    Append(Operand),
    Prepend(Operand),
    Insert(u16, Operand),
    Extend(Bits, Hint),
    /// collect the subject's own bits (through an iterator with the given hint) into a new subject
    Recollect(Hint),
    SplitOffKeepLow(u16),
    SplitOffKeepHigh(u16),
    CopyRange(u16, u16),
    Shift { left: bool, amt: Nat, form: ShForm },
    /// shift by a fraction of the length
    ShiftRel { left: bool, f: u16, ty: NatTy, form: ShForm },
    ShiftIn { left: bool, bit: bool },
    Rot { left: bool, k: u16 },
    Not(bool),
    Bin { op: BinOp, form: Form, rhs: Rhs },
    Reserve(u16),
    ShrinkToFit,
    /// convert to another implementation and back
    Via(Tid),
    WriteRead(bool),
    FormatParse(bool),
    CloneReplace,
    /// `Clone::clone_from` between the subject and another vector of the SAME type built from
    /// the operand's bits and provenance (its type field is ignored): `into` = the other vector
    /// is the destination and then replaces the subject (value unchanged, storage reused from a
    /// vector with different old contents); otherwise the subject takes the other's value
    CloneFrom { into: bool, other: Operand },
}

#[derive(Clone, Debug, Hash, Serialize, Deserialize)]
pub struct History {
    pub ty: Tid,
    pub init: Init,
    pub ops: Vec<Op>,
}

/// What a step did, for the non-triviality rules.
#[derive(Clone, Copy, Debug, Default)]
pub struct StepInfo {
    pub changed: bool,
    pub risk: bool,
    pub grew: bool,
    pub grew_cross: bool,
    pub shrank: bool,
    pub shrank_cross: bool,
    pub foreign_operand: bool,
    pub empty_operand: bool,
    pub cap_op: bool,
    pub mutating: bool,
    pub skipped: bool,
}

/// Harness bound on the length of the unbounded types inside histories (cost control only).
pub struct Limits {
    pub lcap: usize,
    pub gmax: usize,
}

pub fn op_name_of(op: &Op) -> &'static str {
    match op {
        Op::Push(_) => "push",
        Op::Pop => "pop",
        Op::Set(..) => "set",
        Op::Grow(..) => "resize-grow",
        Op::ResizeTo(..) => "resize-to",
        Op::ShrinkTo(_) => "resize-shrink",
        Op::Truncate(_) => "truncate",
        Op::SignExtend(_) => "sign_extend",
        Op::Append(_) => "append",
        Op::Prepend(_) => "prepend",
        Op::Insert(..) => "insert",
        Op::Extend(..) => "extend",
        Op::Recollect(_) => "collect",
        Op::SplitOffKeepLow(_) => "split_off-keep-low",
        Op::SplitOffKeepHigh(_) => "split_off-keep-high",
        Op::CopyRange(..) => "copy_range",
        Op::Shift { left: true, .. } | Op::ShiftRel { left: true, .. } => "shl",
        Op::Shift { .. } | Op::ShiftRel { .. } => "shr",
        Op::ShiftIn { left: true, .. } => "shl_in",
        Op::ShiftIn { .. } => "shr_in",
        Op::Rot { left: true, .. } => "rotl",
        Op::Rot { .. } => "rotr",
        Op::Not(_) => "not",
        Op::Bin { op, .. } => op_name(*op),
        Op::Reserve(_) => "reserve",
        Op::ShrinkToFit => "shrink_to_fit",
        Op::Via(_) => "convert-roundtrip",
        Op::WriteRead(_) => "write-read",
        Op::FormatParse(_) => "format-parse",
        Op::CloneReplace => "clone",
        Op::CloneFrom { .. } => "clone_from",
    }
}

fn v(sig: String, msg: String) -> Violation {
    Violation { sig, msg }
}

/// Build the initial subject and model. The init is clipped to the capacity of `ty`.
pub fn init(ty: Tid, ini: &Init) -> Result<(Z, Bits), Violation> {
    let cap = fixed_cap(ty).unwrap_or(usize::MAX);
    let r: Result<(Z, Bits), String> = catch(|| {
        tid_match!(ty, T => {
            let (z, m): (T, Bits) = match ini {
                Init::Zeros(n) => { let n = (*n).min(cap); (T::zeros(n), Bits::zeros(n)) }
                Init::Ones(n) => { let n = (*n).min(cap); (T::ones(n), Bits::ones(n)) }
                Init::Repeat(b, n) => { let n = (*n).min(cap); (T::repeat(bit(*b), n), Bits(vec![*b; n])) }
                Init::Built(bits, prov) => { let b = bits.zext(bits.len().min(cap)); (build::<T>(&b, prov), b) }
                Init::FromHex(s) => {
                    let s: String = s.chars().take(cap / 4).collect();
                    let mut bits = Vec::new();
                    for c in s.chars().rev() {
                        let d = c.to_digit(16).expect("generated hex digit");
                        for j in 0..4 { bits.push((d >> j) & 1 == 1); }
                    }
                    (T::from_hex(&s).expect("valid fitting hex"), Bits(bits))
                }
                Init::FromBytes(bytes, big) => {
                    let bytes = &bytes[..bytes.len().min(cap / 8)];
                    let mut le = bytes.to_vec();
                    if *big { le.reverse(); }
                    (T::from_bytes(bytes, if *big { Endianness::Big } else { Endianness::Little }).expect("fitting bytes"), Bits::from_bytes_le(&le))
                }
                Init::FromNat(x) => {
                    match T::from_nat(*x, false) {
                        Ok(t) => { let l = x.ty.bits().min(cap); (t, Bits::from_u128(x.v, l)) }
                        Err(_) => (T::zeros(0), Bits::new()),
                    }
                }
                Init::FromSlice(nty, items) => {
                    let k = items.len().min(cap / nty.bits());
                    let raw: Vec<u128> = items[..k].iter().map(|x| x.v).collect();
                    let mut bits = Vec::new();
                    for x in &raw { bits.extend(Bits::from_u128(*x, nty.bits()).0); }
                    (T::from_slice(*nty, &raw).expect("fitting slice"), Bits(bits))
                }
                Init::WithCapacity(c) => (T::with_capacity((*c).min(cap)), Bits::new()),
            };
            (z.wrap(), m)
        })
    });
    r.map_err(|p| v("history-init/panic".into(), format!("initial constructor {:?} for {} panicked: {}", ini, NAMES[ty as usize], p)))
}

fn crosses(a: usize, b: usize, w: usize, is_bv: bool) -> bool {
    let (lo, hi) = (a.min(b), a.max(b));
    (lo / w != hi / w && lo != hi) || (is_bv && lo <= BV_INLINE && hi > BV_INLINE)
}

/// Apply one operation to subject and model. `Err` = the subject misbehaved (panic / wrong
/// return value); the state comparison itself is done by the caller through the battery.
pub fn step(z: &mut Z, m: &mut Bits, op: &Op, lim: &Limits) -> Result<StepInfo, Violation> {
    let ty = z.tid();
    let n = m.len();
    let cap = fixed_cap(ty);
    let w = WORD_BITS[ty as usize];
    let is_bv = ty == TID_A;
    let room = cap.map_or(lim.lcap.saturating_sub(n), |c| c - n);
    let name = op_name_of(op);
    let mut info = StepInfo::default();
    let before = m.clone();
    let pan = |p: String| v(format!("history:{}/panic", name), format!("{} on a {} of length {} panicked: {}", name, NAMES[ty as usize], n, p));
    // clip an operand to the remaining room
    let clip = |o: &Operand| -> Operand {
        let mut o = o.clone();
        if o.bits.len() > room {
            o.bits.0.truncate(room);
            // a provenance that needs the full capacity of its own type is still fine after truncation
        }
        o
    };
    match op {
        Op::Push(b) => {
            if room == 0 {
                info.skipped = true;
            } else {
                catch(|| z_match!(&mut *z, x => x.push(bit(*b)))).map_err(pan)?;
                m.0.push(*b);
            }
        }
        Op::Pop => {
            let r = catch(|| z_match!(&mut *z, x => x.pop())).map_err(pan)?;
            let e = m.0.pop();
            if r.map(unbit) != e {
                return Err(v("history:pop/return".into(), format!("pop() returned {:?}, model {:?}", r, e)));
            }
        }
        Op::Set(f, b) => {
            if n == 0 {
                info.skipped = true;
            } else {
                let i = frac(*f, n);
                catch(|| z_match!(&mut *z, x => x.set(i, bit(*b)))).map_err(pan)?;
                m.0[i] = *b;
            }
        }
        Op::Grow(f, b) => {
            let g = frac(*f, room.min(lim.gmax) + 1);
            catch(|| z_match!(&mut *z, x => x.resize(n + g, bit(*b)))).map_err(pan)?;
            m.0.resize(n + g, *b);
        }
        Op::ResizeTo(t, b) => {
            let t = cap.map_or(*t, |c| (*t).min(c));
            catch(|| z_match!(&mut *z, x => x.resize(t, bit(*b)))).map_err(pan)?;
            m.0.resize(t, *b);
        }
        Op::ShrinkTo(f) => {
            let k = frac(*f, n + 1);
            catch(|| z_match!(&mut *z, x => x.resize(k, Bit::One))).map_err(pan)?;
            m.0.truncate(k);
        }
        Op::Truncate(f) => {
            // new_len may exceed the length: then truncate has no effect
            let k = frac(*f, n + n / 4 + 2);
            catch(|| z_match!(&mut *z, x => x.truncate(k))).map_err(pan)?;
            if k < n {
                m.0.truncate(k);
            }
        }
        Op::SignExtend(f) => {
            // new_length may be below the length: then sign_extend has no effect
            let g = frac(*f, room.min(lim.gmax) + 1);
            let target = if *f % 7 == 0 { n.saturating_sub(g) } else { n + g };
            catch(|| z_match!(&mut *z, x => x.sign_extend(target))).map_err(pan)?;
            if target > n {
                if n == 0 {
                    // unspecified fill ("previous top bit" of an empty vector): only the length is
                    // asserted, the model adopts the observed bits
                    if z.len() != target {
                        return Err(v("history:sign_extend/len".into(), format!("sign_extend({}) on an empty vector gave length {}", target, z.len())));
                    }
                    *m = read_bits_z(z);
                } else {
                    let s = m.0[n - 1];
                    m.0.resize(target, s);
                }
            }
        }
        Op::Append(o) | Op::Prepend(o) | Op::Insert(_, o) => {
            let o = clip(o);
            let zo = build_checked(&o, "history operand")?;
            info.foreign_operand = o.ty != ty;
            info.empty_operand = o.bits.is_empty();
            match op {
                Op::Append(_) => {
                    catch(|| z_match!(&mut *z, x => z_match!(&zo, y => x.append(y)))).map_err(pan)?;
                    m.0.extend_from_slice(&o.bits.0);
                }
                Op::Prepend(_) => {
                    catch(|| z_match!(&mut *z, x => z_match!(&zo, y => x.prepend(y)))).map_err(pan)?;
                    let mut nb = o.bits.0.clone();
                    nb.extend_from_slice(&m.0);
                    m.0 = nb;
                }
                Op::Insert(f, _) => {
                    let i = frac(*f, n + 1);
                    catch(|| z_match!(&mut *z, x => z_match!(&zo, y => x.insert(i, y)))).map_err(pan)?;
                    let tail = m.0.split_off(i);
                    m.0.extend_from_slice(&o.bits.0);
                    m.0.extend_from_slice(&tail);
                }
                _ => unreachable!(),
            }
            unchanged(&zo, &o.bits, &format!("history:{}", name))?;
        }
        Op::Extend(bits, hint) => {
            let k = bits.len().min(room);
            let slice = &bits.0[..k];
            catch(|| z_match!(&mut *z, x => x.extend(HintIter::new(slice, *hint)))).map_err(pan)?;
            m.0.extend_from_slice(slice);
        }
        Op::Recollect(hint) => {
            let cur = m.0.clone();
            let nz = catch(|| tid_match!(ty, T => HintIter::new(&cur, *hint).collect::<T>().wrap())).map_err(pan)?;
            *z = nz;
        }
        Op::SplitOffKeepLow(f) | Op::SplitOffKeepHigh(f) => {
            let i = frac(*f, n + 1);
            let hi = catch(|| z_match!(&mut *z, x => x.split_off(i).wrap())).map_err(pan)?;
            let hi_m = Bits(m.0.split_off(i));
            if matches!(op, Op::SplitOffKeepHigh(_)) {
                // the low part must be right too before it is dropped
                battery_z(z, m, Strength::Light, "history:split_off/low")?;
                *z = hi;
                *m = hi_m;
            } else {
                battery_z(&hi, &hi_m, Strength::Light, "history:split_off/high")?;
            }
        }
        Op::CopyRange(f1, f2) => {
            let x = frac(*f1, n + 1);
            let y = frac(*f2, n + 1);
            let (s, e) = (x.min(y), x.max(y));
            let nz = catch(|| z_match!(&*z, x => x.copy_range(s..e).wrap())).map_err(pan)?;
            *z = nz;
            *m = Bits(m.0[s..e].to_vec());
        }
        Op::Shift { left, amt, form } => {
            let nz = catch(|| z_match!(&*z, x => x.shift_x(*left, *amt, *form).wrap())).map_err(pan)?;
            *z = nz;
            *m = model_shift(m, *left, amt.v);
            info.risk = n % w != 0;
        }
        Op::ShiftRel { left, f, ty: nty, form } => {
            let k = (frac(*f, n + 2) as u128).min((*nty).maxv());
            let amt = Nat::new(*nty, k);
            let nz = catch(|| z_match!(&*z, x => x.shift_x(*left, amt, *form).wrap())).map_err(pan)?;
            *z = nz;
            *m = model_shift(m, *left, k);
            info.risk = n % w != 0;
        }
        Op::ShiftIn { left, bit: b } => {
            let r = catch(|| z_match!(&mut *z, x => if *left { x.shl_in(bit(*b)) } else { x.shr_in(bit(*b)) })).map_err(pan)?;
            let e = if n == 0 {
                *b
            } else if *left {
                let out = m.0[n - 1];
                m.0.pop();
                m.0.insert(0, *b);
                out
            } else {
                let out = m.0.remove(0);
                m.0.push(*b);
                out
            };
            if unbit(r) != e {
                return Err(v(format!("history:{}/return", name), format!("{}({}) on length {} returned {:?}, model {}", name, *b as u8, n, r, e as u8)));
            }
            info.risk = n % w != 0;
        }
        Op::Rot { left, k } => {
            let k = frac(*k, n + 1);
            catch(|| z_match!(&mut *z, x => if *left { x.rotl(k) } else { x.rotr(k) })).map_err(pan)?;
            *m = model_rot(m, k, *left);
            info.risk = n % w != 0;
        }
        Op::Not(owned) => {
            let nz = catch(|| z_match!(&*z, x => x.not_x(*owned).wrap())).map_err(pan)?;
            *z = nz;
            m.0.iter_mut().for_each(|b| *b = !*b);
            info.risk = n % w != 0;
        }
        Op::Bin { op: bop, .. } if ty == TID_HUGE && n > HUGE_DIV_MAX && matches!(bop, BinOp::Div | BinOp::Rem) => {
            // cost control: a long division on the 70 400-bit type takes half a second
            info.skipped = true;
        }
        Op::Bin { op: bop, form, rhs } => {
            let rb = build_rhs_checked(rhs)?;
            let rbits = rhs.bits();
            match model_bin(m, &rbits, *bop) {
                None => {
                    // zero divisor: must panic; the subject is left alone afterwards
                    let r = apply_bin(z, rb.as_ref(), *bop, *form);
                    if r.is_ok() {
                        return Err(v(format!("history:{}/zero-divisor-returned", name), format!("{} by a zero-valued divisor returned", name)));
                    }
                    info.skipped = true;
                }
                Some(e) => {
                    let nz = apply_bin(z, rb.as_ref(), *bop, *form).map_err(pan)?;
                    *z = nz;
                    *m = e;
                    info.risk = rhs.len() > n || matches!(rhs, Rhs::V(o) if o.ty != ty);
                    info.foreign_operand = matches!(rhs, Rhs::V(o) if o.ty != ty);
                    if let BuiltRhs::V(zb) = &rb {
                        unchanged(zb, &rbits, &format!("history:{}", name))?;
                    }
                }
            }
        }
        Op::Reserve(k) => {
            let k = *k as usize;
            let did = catch(|| z_match!(&mut *z, x => x.reserve_x(k))).map_err(pan)?;
            if did {
                info.cap_op = true;
                if z.capacity() < n + k {
                    return Err(v("history:reserve/capacity".into(), format!("after reserve({}) on length {} capacity() is {}", k, n, z.capacity())));
                }
            } else {
                info.skipped = true;
            }
        }
        Op::ShrinkToFit => {
            let did = catch(|| z_match!(&mut *z, x => x.shrink_x())).map_err(pan)?;
            if did {
                info.cap_op = true;
                let fresh_cap = build_canon_z(ty, &Bits::zeros(n)).capacity();
                if z.capacity() > fresh_cap {
                    return Err(v("history:shrink_to_fit/capacity".into(), format!("after shrink_to_fit at length {} capacity() is {}, a fresh vector of that length has {}", n, z.capacity(), fresh_cap)));
                }
            } else {
                info.skipped = true;
            }
        }
        Op::Via(t2) => {
            let t2 = match fixed_cap(*t2) {
                Some(c) if c < n => TID_D,
                _ => *t2,
            };
            let nz = catch(|| {
                let mid = tab_conv::convert(z, t2, false).unwrap().expect("fitting conversion");
                tab_conv::convert(&mid, ty, false).unwrap().expect("conversion back")
            })
            .map_err(pan)?;
            *z = nz;
        }
        Op::WriteRead(big) => {
            let e = if *big { Endianness::Big } else { Endianness::Little };
            let nz = catch(|| {
                tid_match!(ty, T => {
                    let bytes = z_match!(&*z, x => { let mut s: Vec<u8> = Vec::new(); x.write(&mut s, e).expect("write into Vec"); s });
                    let mut rd: &[u8] = &bytes;
                    T::read(&mut rd, n, e).expect("read back what was written").wrap()
                })
            })
            .map_err(pan)?;
            *z = nz;
        }
        Op::FormatParse(hex) => {
            let nz = catch(|| {
                tid_match!(ty, T => {
                    if *hex {
                        let s = z_match!(&*z, x => format!("{:x}", x));
                        let nd = (n + 3) / 4;
                        let s = if n == 0 { String::new() } else { format!("{}{}", "0".repeat(nd.saturating_sub(s.len())), s) };
                        let mut t = T::from_hex(&s).expect("parse own hex output");
                        t.truncate(n);
                        t.wrap()
                    } else {
                        let s = z_match!(&*z, x => format!("{:b}", x));
                        let s = if n == 0 { String::new() } else { format!("{}{}", "0".repeat(n.saturating_sub(s.len())), s) };
                        T::from_binary(&s).expect("parse own binary output").wrap()
                    }
                })
            })
            .map_err(pan)?;
            *z = nz;
        }
        Op::CloneReplace => {
            let nz = z.clone();
            *z = nz;
        }
        Op::CloneFrom { into, other } => {
            let cap = fixed_cap(ty).unwrap_or(usize::MAX);
            let ob = other.bits.zext(other.bits.len().min(cap));
            let nz = catch(|| {
                tid_match!(ty, T => {
                    let mut o: T = build::<T>(&ob, &other.prov);
                    let mut cur = T::from_z(z.clone()).expect("subject has its own type");
                    if *into {
                        o.clone_from(&cur);
                        o.wrap()
                    } else {
                        cur.clone_from(&o);
                        cur.wrap()
                    }
                })
            })
            .map_err(pan)?;
            *z = nz;
            if !*into {
                *m = ob;
            }
            info.risk = true;
        }
    }
    let after = m.len();
    info.changed = *m != before;
    info.grew = after > n;
    info.shrank = after < n;
    info.grew_cross = after > n && crosses(n, after, w, is_bv);
    info.shrank_cross = after < n && crosses(n, after, w, is_bv);
    info.mutating = info.changed || matches!(op, Op::Bin { .. } | Op::Shift { .. } | Op::ShiftRel { .. } | Op::Not(_) | Op::Rot { .. } | Op::Append(_) | Op::Prepend(_) | Op::Insert(..) | Op::Extend(..) | Op::Grow(..) | Op::ResizeTo(..) | Op::Push(_) | Op::Set(..) | Op::CloneFrom { .. });
    Ok(info)
}

/// The growth probes of C03's last clause: growing exposes only the requested fill bits.
pub fn growth_probes(z: &Z, m: &Bits, lim: &Limits) -> Result<u32, Violation> {
    let ty = z.tid();
    let n = m.len();
    let room = fixed_cap(ty).map_or(lim.lcap.max(n + 70) - n, |c| c - n);
    if room == 0 {
        return Ok(0);
    }
    let w = WORD_BITS[ty as usize];
    let g = room.min(w + 3);
    let mut done = 0;
    let probes: Vec<Op> = vec![
        Op::Grow(65535, false),
        Op::Grow(65535, true),
        Op::Push(true),
        Op::Append(Operand::canon(if ty == TID_D { 4 } else { TID_D }, Bits::ones(g))),
        Op::SignExtend(65534),
        Op::Extend(Bits::ones(g), Hint::Zero),
    ];
    let plim = Limits { lcap: n + room, gmax: g };
    for p in probes {
        let mut zc = z.clone();
        let mut mc = m.clone();
        step(&mut zc, &mut mc, &p, &plim)?;
        battery_z(&zc, &mc, Strength::Light, &format!("growth-probe:{}", op_name_of(&p))).map_err(|mut e| {
            e.msg = format!("growing the subject (model {}) with {:?} exposes something other than the requested fill: {}", short(m), p, e.msg);
            e
        })?;
        done += 1;
    }
    Ok(done)
}
