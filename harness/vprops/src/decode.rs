//! Byte string -> structured case (E3, DESIGN.md 1.5): the coverage-guided fuzzer mutates bytes,
//! this layer turns them into the same case types the proptest strategies produce, so the fuzzer
//! reaches the semantic oracle instead of dying in input validation.

use crate::gen::*;
use crate::interp::*;
use crate::props::c13::C13Case;
use crate::props::c15::C15Case;
use crate::props::c17::{C17Case, Call, KSel, Terminal};
use crate::spec::*;
use arbitrary::Unstructured;
use vcore::*;

fn u8_(u: &mut Unstructured) -> u8 {
    u.arbitrary::<u8>().unwrap_or(0)
}
fn u16_(u: &mut Unstructured) -> u16 {
    u.arbitrary::<u16>().unwrap_or(0)
}
fn u64_(u: &mut Unstructured) -> u64 {
    u.arbitrary::<u64>().unwrap_or(0)
}
fn u128_(u: &mut Unstructured) -> u128 {
    u.arbitrary::<u128>().unwrap_or(0)
}
fn bool_(u: &mut Unstructured) -> bool {
    u8_(u) & 1 == 1
}
fn rest<'a>(u: &mut Unstructured<'a>) -> &'a [u8] {
    let n = u.len();
    u.bytes(n).unwrap_or(&[])
}
fn below(u: &mut Unstructured, n: usize) -> usize {
    if n <= 1 {
        0
    } else {
        u.int_in_range(0..=n - 1).unwrap_or(0)
    }
}

pub fn tid(u: &mut Unstructured) -> Tid {
    // the two unbounded types get extra weight
    let x = below(u, 24);
    match x {
        0..=15 => x as Tid,
        16..=18 => TID_D,
        19..=21 => TID_A,
        22 => 18,
        _ => 19,
    }
}

pub fn nat_ty(u: &mut Unstructured) -> NatTy {
    NAT_TYS[below(u, 6)]
}

pub fn nat(u: &mut Unstructured) -> Nat {
    let ty = nat_ty(u);
    match below(u, 3) {
        0 => {
            let l = nat_lattice(ty);
            Nat::new(ty, l[below(u, l.len())])
        }
        1 => Nat::new(ty, u16_(u) as u128 % 400),
        _ => Nat::new(ty, u128_(u)),
    }
}

pub fn valpat(u: &mut Unstructured) -> ValPat {
    match below(u, 10) {
        0 => ValPat::Zero,
        1 => ValPat::Ones,
        2 => ValPat::OneHot(u16_(u)),
        3 => ValPat::LowOnes(u16_(u)),
        4 => ValPat::HighOnes(u16_(u)),
        5 => ValPat::Runs(bool_(u), (0..1 + below(u, 8)).map(|_| u8_(u)).collect()),
        6 => ValPat::Alt(bool_(u)),
        7 => ValPat::WordPat((0..1 + below(u, 8)).map(|_| u8_(u)).collect(), (0..4).map(|_| u64_(u)).collect()),
        8 => ValPat::Sparse((0..1 + below(u, 4)).map(|_| u16_(u)).collect()),
        _ => ValPat::Dense((0..6).map(|_| u64_(u)).collect()),
    }
}

pub fn prov(u: &mut Unstructured) -> Prov {
    match below(u, 20) {
        19 => Prov::TruncThenPush(u16_(u)),
        16 => Prov::AddVec(below(u, NT as usize) as Tid),
        17 => Prov::SubNat(nat_ty(u)),
        18 => Prov::OrLonger(below(u, NT as usize) as Tid),
        0..=4 => Prov::Canon,
        5 => Prov::FromBinary,
        6 => Prov::Pushed,
        7 => Prov::Collected,
        8 => Prov::Via(below(u, NT as usize) as Tid),
        9 => Prov::Spare([1u16, 63, 64, 65, 200, 1000][below(u, 6)]),
        10 => Prov::LongThenTrunc([1u16, 64, 129, 200][below(u, 4)]),
        11 => Prov::NotNot,
        12 => Prov::RotRound(u16_(u)),
        13 => Prov::ShiftInOut(bool_(u)),
        14 => Prov::BytesTrunc,
        _ => Prov::ReadSurplus(bool_(u)),
    }
}

const LENS: [usize; 20] = [0, 1, 2, 7, 8, 9, 15, 16, 17, 31, 32, 33, 63, 64, 65, 127, 128, 129, 130, 200];

pub fn small_len(u: &mut Unstructured) -> usize {
    if bool_(u) {
        LENS[below(u, LENS.len())]
    } else {
        below(u, 300)
    }
}

pub fn operand(u: &mut Unstructured) -> Operand {
    let t = tid(u);
    let n = small_len(u).min(fixed_cap(t).unwrap_or(usize::MAX));
    let vp = valpat(u);
    Operand { ty: t, bits: realize_val(&vp, n, WORD_BITS[t as usize]), prov: prov(u) }
}

pub fn rhs(u: &mut Unstructured) -> Rhs {
    if below(u, 4) == 0 {
        Rhs::N(nat(u))
    } else {
        Rhs::V(operand(u))
    }
}

pub fn hint(u: &mut Unstructured) -> Hint {
    [Hint::Exact, Hint::Zero, Hint::Partial, Hint::LooseUpper][below(u, 4)]
}

/// mode: 0 = whole API (C03), 1 = edits only (C07), 2 = capacity-heavy (C18)
pub fn op(u: &mut Unstructured, mode: u8) -> Op {
    let edits = |u: &mut Unstructured| match below(u, 12) {
        0 => Op::Push(bool_(u)),
        1 => Op::Pop,
        2 => Op::Set(u16_(u), bool_(u)),
        3 => Op::Grow(u16_(u), bool_(u)),
        4 => Op::ShrinkTo(u16_(u)),
        5 => Op::Truncate(u16_(u)),
        6 => Op::SignExtend(u16_(u)),
        7 => Op::Append(operand(u)),
        8 => Op::Prepend(operand(u)),
        9 => Op::Insert(u16_(u), operand(u)),
        10 => {
            let n = below(u, 80);
            Op::Extend(realize_val(&valpat(u), n, 8), hint(u))
        }
        _ => Op::Recollect(hint(u)),
    };
    let caps = |u: &mut Unstructured| {
        if below(u, 3) == 0 {
            Op::ShrinkToFit
        } else {
            Op::Reserve([0u16, 1, 63, 64, 65, 127, 128, 129, 200, 1000, 4096][below(u, 11)])
        }
    };
    let others = |u: &mut Unstructured| match below(u, 15) {
        0 => Op::SplitOffKeepLow(u16_(u)),
        1 => Op::SplitOffKeepHigh(u16_(u)),
        2 => Op::CopyRange(u16_(u), u16_(u)),
        3 => Op::Shift { left: bool_(u), amt: nat(u), form: SH_FORMS[below(u, 6)] },
        4 => Op::ShiftRel { left: bool_(u), f: u16_(u), ty: nat_ty(u), form: SH_FORMS[below(u, 6)] },
        5 => Op::ShiftIn { left: bool_(u), bit: bool_(u) },
        6 => Op::Rot { left: bool_(u), k: u16_(u) },
        7 => Op::Not(bool_(u)),
        8 | 9 | 10 => Op::Bin { op: BIN_OPS[below(u, 8)], form: FORMS[below(u, 6)], rhs: rhs(u) },
        11 => Op::Via(below(u, NT as usize) as Tid),
        12 => {
            if bool_(u) {
                Op::WriteRead(bool_(u))
            } else {
                Op::FormatParse(bool_(u))
            }
        }
        13 => Op::CloneReplace,
        _ => Op::CloneFrom { into: bool_(u), other: operand(u) },
    };
    match mode {
        1 => edits(u),
        2 => match below(u, 3) {
            0 => edits(u),
            1 => others(u),
            _ => caps(u),
        },
        _ => match below(u, 8) {
            0..=2 => edits(u),
            3..=6 => others(u),
            _ => caps(u),
        },
    }
}

pub fn init_of(u: &mut Unstructured) -> Init {
    match below(u, 10) {
        0 => Init::Zeros(small_len(u)),
        1 => Init::Ones(small_len(u)),
        2 => Init::Repeat(bool_(u), small_len(u)),
        3 => Init::FromHex((0..below(u, 40)).map(|_| b"0123456789abcdefABCDEF"[below(u, 22)] as char).collect()),
        4 => Init::FromBytes((0..below(u, 30)).map(|_| u8_(u)).collect(), bool_(u)),
        5 => Init::FromNat(nat(u)),
        6 => Init::WithCapacity([0usize, 64, 128, 129, 500][below(u, 5)]),
        _ => {
            let n = small_len(u);
            Init::Built(realize_val(&valpat(u), n, 64), prov(u))
        }
    }
}

pub fn history(u: &mut Unstructured, mode: u8) -> History {
    let ty = if mode == 2 && bool_(u) { if bool_(u) { TID_D } else { TID_A } } else { tid(u) };
    let ini = init_of(u);
    let mut ops = Vec::new();
    while !u.is_empty() && ops.len() < 40 {
        ops.push(op(u, mode));
    }
    History { ty, init: ini, ops }
}

pub fn c17(u: &mut Unstructured) -> C17Case {
    let mut a = operand(u);
    a.bits.0.truncate(300);
    let into_iter = bool_(u);
    let rev = bool_(u);
    let term = [Terminal::Count, Terminal::Last, Terminal::Collect, Terminal::Drain, Terminal::Fold, Terminal::Rfold, Terminal::Adaptors][below(u, 7)];
    let ksel = |u: &mut Unstructured| match below(u, 17) {
        15 | 16 => KSel::Pow2Plus(below(u, 64) as u8, below(u, 12) as u8),
        12..=14 => KSel::Frac(u16_(u)),
        0..=4 => KSel::Small(below(u, 6) as u8),
        5 => KSel::RemMinus1,
        6 => KSel::Rem,
        7 => KSel::RemPlus1,
        8 => KSel::Max,
        9 => KSel::MaxMinus1,
        10 => KSel::MaxMinusRem,
        _ => KSel::Any(u64_(u) as usize),
    };
    let mut calls = Vec::new();
    while !u.is_empty() && calls.len() < 40 {
        calls.push(match below(u, 5) {
            0 => Call::Next,
            1 => Call::NextBack,
            2 => Call::Nth(ksel(u)),
            3 => Call::NthBack(ksel(u)),
            _ => Call::SizeHint,
        });
    }
    C17Case { a, into_iter, rev, calls, term, giant: None }
}

/// Arbitrary (lossily decoded) UTF-8 text for the parsers.
pub fn c15(u: &mut Unstructured) -> C15Case {
    let ty = tid(u);
    let hex = bool_(u);
    let r = rest(u);
    let s: String = String::from_utf8_lossy(r).chars().take(700).collect();
    C15Case::Parse { ty, s, hex }
}

pub fn c13(u: &mut Unstructured) -> C13Case {
    let ty = tid(u);
    let big = bool_(u);
    match below(u, 3) {
        0 => C13Case::Out { a: operand(u) },
        1 => {
            let bytes = rest(u).to_vec();
            C13Case::FromBytes { ty, bytes: bytes.into_iter().take(60).collect(), big }
        }
        _ => {
            let len = u16_(u) as usize % 1200;
            let chunked = bool_(u);
            let bytes = rest(u).to_vec();
            C13Case::Read { ty, bytes: bytes.into_iter().take(200).collect(), len, big, chunked }
        }
    }
}
