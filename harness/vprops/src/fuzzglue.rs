//! Glue between a libFuzzer target and a property's check function (E3).

use crate::engine::{guarded_check, install_quiet_hook, Property};
use crate::stats::{hash64, Stats};
use std::sync::Once;

static INIT: Once = Once::new();

/// Run one decoded case. On a violation the decoded case is written as a replay file into
/// $FUZZ_REPLAY_DIR and the process aborts, so that libFuzzer keeps the raw input as an artifact.
pub fn run_case<P: Property>(p: &P, case: &P::Case) {
    // libfuzzer-sys installs a hook that aborts on ANY panic; the checks rely on catch_unwind for
    // the panics the properties demand (zero divisor, capacity overflow), so replace it.
    INIT.call_once(install_quiet_hook);
    let mut st = Stats::new();
    st.light = std::env::var("FUZZ_FULL_BATTERY").is_err();
    if let Err(v) = guarded_check(p, case, &mut st) {
        let cj = serde_json::to_value(case).unwrap_or(serde_json::Value::Null);
        let dir = std::env::var("FUZZ_REPLAY_DIR").unwrap_or_else(|_| "/tmp".to_string());
        let _ = std::fs::create_dir_all(&dir);
        let path = format!("{}/fuzz-{:016x}.json", dir, hash64(&cj.to_string()));
        let doc = serde_json::json!({"property": p.id(), "engine": "E3-libfuzzer", "signature": v.sig, "message": v.msg, "case": cj});
        let _ = std::fs::write(&path, serde_json::to_string_pretty(&doc).unwrap());
        eprintln!("FUZZ-VIOLATION property={} signature={} replay={}\n  {}", p.id(), v.sig, path, v.msg);
        std::process::abort();
    }
}
