//! vprops: batteries, generators, engine and one module per property (DESIGN.md section 1).
pub mod battery;
pub mod decode;
pub mod engine;
pub mod fuzzglue;
pub mod gen;
pub mod interp;
pub mod minimize;
pub mod props;
pub mod spec;
pub mod stats;
