//! bvv: `bvv run <ID> [--tier quick|thorough] [--seed N] [--profile NAME] [--threads N] [--only enum|random]`
//!      `bvv replay <ID> <path> [--profile NAME]`
//!      `bvv list`
use std::path::PathBuf;
use vprops::engine::*;
use vprops::with_property;

fn arg_val(args: &[String], name: &str) -> Option<String> {
    args.iter().position(|a| a == name).and_then(|i| args.get(i + 1).cloned())
}

fn main() {
    let args: Vec<String> = std::env::args().collect();
    if args.len() < 2 {
        eprintln!("usage: bvv run <ID> ... | bvv replay <ID> <path> | bvv list");
        std::process::exit(2);
    }
    install_quiet_hook();
    let root = PathBuf::from(std::env::var("VERIF_ROOT").unwrap_or_else(|_| "/verif".to_string()));
    let profile = arg_val(&args, "--profile").unwrap_or_else(|| if cfg!(debug_assertions) { "dbg".into() } else { "rel".into() });
    match args[1].as_str() {
        "list" => {
            for id in vprops::props::ALL_IDS {
                println!("{}", id);
            }
        }
        "run" => {
            let id = args.get(2).cloned().unwrap_or_default();
            let tier = match arg_val(&args, "--tier").as_deref() {
                Some("thorough") => Tier::Thorough,
                _ => Tier::Quick,
            };
            let seed: u64 = arg_val(&args, "--seed").and_then(|s| s.parse().ok()).unwrap_or(0);
            let threads: usize = arg_val(&args, "--threads").and_then(|s| s.parse().ok()).unwrap_or_else(|| std::thread::available_parallelism().map(|n| n.get()).unwrap_or(4));
            let cfg = RunCfg { tier, seed, profile: profile.clone(), threads, root: root.clone(), only: arg_val(&args, "--only") };
            let code = with_property!(id.as_str(), p => {
                let out = run_property(&p, &cfg);
                let dir = root.join("evidence").join(".partial");
                let _ = std::fs::create_dir_all(&dir);
                let path = dir.join(format!("{}.{}.json", id, profile));
                if let Err(e) = std::fs::write(&path, serde_json::to_string_pretty(&out.evidence).unwrap()) {
                    eprintln!("cannot write {}: {}", path.display(), e);
                    std::process::exit(2);
                }
                report(&id, &cfg, &out)
            });
            match code {
                Some(c) => std::process::exit(c),
                None => {
                    eprintln!("unknown property id {:?}", id);
                    std::process::exit(2);
                }
            }
        }
        "minimize" => {
            // bvv minimize <ID> <replay.json>: shrink the case in place (same violation signature)
            let id = args.get(2).cloned().unwrap_or_default();
            let path = args.get(3).cloned().unwrap_or_default();
            let text = std::fs::read_to_string(&path).unwrap_or_default();
            let Ok(mut doc) = serde_json::from_str::<serde_json::Value>(&text) else {
                eprintln!("cannot parse {}", path);
                std::process::exit(2);
            };
            let case = doc.get("case").cloned().unwrap_or(doc.clone());
            let r = with_property!(id.as_str(), p => vprops::minimize::minimize(&p, case));
            match r {
                Some((min, Some(sig))) => {
                    if let Some(o) = doc.as_object_mut() {
                        o.insert("case".into(), min);
                        o.insert("minimized".into(), true.into());
                        o.insert("signature".into(), sig.into());
                    } else {
                        doc = serde_json::json!({"property": id, "case": min, "minimized": true, "signature": sig});
                    }
                    std::fs::write(&path, serde_json::to_string_pretty(&doc).unwrap()).ok();
                    std::process::exit(0);
                }
                Some((_, None)) => {
                    eprintln!("case does not fail in this build: nothing to minimise");
                    std::process::exit(3);
                }
                None => std::process::exit(2),
            }
        }
        "replay" => {
            let id = args.get(2).cloned().unwrap_or_default();
            let path = args.get(3).cloned().unwrap_or_default();
            let code = with_property!(id.as_str(), p => replay(&p, &path, &profile));
            std::process::exit(code.unwrap_or(2));
        }
        _ => {
            eprintln!("unknown command");
            std::process::exit(2);
        }
    }
}
