//! C02 - division and remainder exact for every non-zero divisor; zero divisor panics.

use super::common::*;
use crate::battery::battery_z;
use crate::engine::*;
use crate::gen::*;
use crate::spec::*;
use crate::stats::Stats;
use crate::{ensure, fail};
use proptest::prelude::*;
use serde::{Deserialize, Serialize};
use vcore::*;

#[derive(Clone, Copy, Debug, Hash, PartialEq, Eq, Serialize, Deserialize)]
pub enum DivKind {
    /// `/` in the given form
    Div,
    /// `%` in the given form
    Rem,
    /// `a.div_rem(&b)` (vector divisor only)
    DivRem,
}

#[derive(Clone, Debug, Hash, Serialize, Deserialize)]
pub struct C02Case {
    pub a: Operand,
    pub b: Rhs,
    pub kind: DivKind,
    pub form: Form,
}

pub struct C02;

#[derive(Clone, Debug)]
enum DivisorSel {
    Zero,
    One,
    SameAsA,
    APlus1,
    AMinus1,
    Pow2(u16),
    Small(u8),
    HalfWidth(ValPat),
    Random(ValPat),
}

fn arb_divisor_sel() -> impl Strategy<Value = DivisorSel> {
    prop_oneof![
        2 => Just(DivisorSel::Zero),
        1 => Just(DivisorSel::One),
        1 => Just(DivisorSel::SameAsA),
        1 => Just(DivisorSel::APlus1),
        1 => Just(DivisorSel::AMinus1),
        2 => any::<u16>().prop_map(DivisorSel::Pow2),
        3 => any::<u8>().prop_map(DivisorSel::Small),
        4 => arb_valpat().prop_map(DivisorSel::HalfWidth),
        4 => arb_valpat().prop_map(DivisorSel::Random),
    ]
}

fn divisor_bits(a: &Bits, m: usize, w: usize, sel: &DivisorSel) -> Bits {
    if m == 0 {
        return Bits::new();
    }
    let md = pow2(m);
    match sel {
        DivisorSel::Zero => Bits::zeros(m),
        DivisorSel::One => Bits::from_u128(1, m),
        DivisorSel::SameAsA => Bits::from_big(&(a.to_big() % &md), m),
        DivisorSel::APlus1 => Bits::from_big(&((a.to_big() + 1u8) % &md), m),
        DivisorSel::AMinus1 => Bits::from_big(&((a.to_big() % &md + &md - 1u8) % &md), m),
        DivisorSel::Pow2(f) => {
            let mut b = Bits::zeros(m);
            b.0[frac(*f, m)] = true;
            b
        }
        DivisorSel::Small(v) => Bits::from_u128((*v as u128 % 11) + 1, m),
        DivisorSel::HalfWidth(vp) => {
            // a random value with about half as many significant bits as the dividend
            let h = (a.significant() / 2).max(1).min(m);
            let mut b = realize_val(vp, h, w).zext(m);
            b.0[h - 1] = true;
            b
        }
        DivisorSel::Random(vp) => realize_val(vp, m, w),
    }
}

fn arb_kind_form() -> impl Strategy<Value = (DivKind, Form)> {
    (0usize..3, 0usize..6).prop_map(|(k, f)| ([DivKind::Div, DivKind::Rem, DivKind::DivRem][k], FORMS[f]))
}

impl C02 {
    fn run(&self, za: &Z, rb: &BuiltRhs, kind: DivKind, form: Form) -> Result<(Option<Z>, Option<Z>), String> {
        match kind {
            DivKind::Div => apply_bin(za, rb.as_ref(), BinOp::Div, form).map(|q| (Some(q), None)),
            DivKind::Rem => apply_bin(za, rb.as_ref(), BinOp::Rem, form).map(|r| (None, Some(r))),
            DivKind::DivRem => match rb {
                BuiltRhs::V(zb) => catch(|| tab_div::div_rem(za, zb)).map(|(q, r)| (Some(q), Some(r))),
                BuiltRhs::N(_) => unreachable!("div_rem has no native form"),
            },
        }
    }
}

impl Property for C02 {
    type Case = C02Case;
    fn id(&self) -> &'static str {
        "C02"
    }
    fn rule(&self) -> String {
        "Cases: (dividend of any zoo type/length/provenance, divisor vector of any type/length/provenance or native integer, form in {/ x6, % x6, div_rem}). Divisor classes: value 0 (empty or zeros(m)), 1, a, a+-1, powers of two, small value in a long vector (m > n and m > capacity of the dividend type), half-width random, random. Enumerated: all (n,a,m,b) n,m<=4/6 x 20x20 pairings x {/,%,div_rem}; native lattice; divisor-length sweep m in 1..capacity(L)+70 with value in {1,2,3} for every fixed dividend type and every divisor type able to hold m bits. Oracle: BigUint div_rem; additionally q*b+r=a and r<b asserted on read-back values; zero-valued divisor must panic in every form, non-zero must not. Non-trivial: divisor non-zero, val b <= val a (the subtract loop runs) and the quotient has >= 2 set bits; zero-divisor cases are counted in their own class. Distinct by hash of the whole case.".into()
    }
    fn random_cases(&self, tier: Tier) -> u64 {
        tier.pick(200000, 8000000)
    }
    fn strategy(&self, tier: Tier) -> BoxedStrategy<C02Case> {
        let lmax = lmax_dyn(tier);
        let vec_case = (arb_operand(tier), arb_tid(), arb_len_sel(), arb_divisor_sel(), arb_prov(), arb_kind_form()).prop_map(move |(mut a, bt, bls, sel, bprov, (kind, form))| {
            clamp_huge_dividend(&mut a);
            let m = realize_len(&bls, bt, lmax);
            let bb = divisor_bits(&a.bits, m, WORD_BITS[bt as usize], &sel);
            C02Case { a, b: Rhs::V(Operand { ty: bt, bits: bb, prov: bprov }), kind, form }
        });
        let nat_case = (arb_operand(tier), arb_nat(), any::<bool>(), 0usize..6).prop_map(|(mut a, x, d, f)| {
            clamp_huge_dividend(&mut a);
            C02Case { a, b: Rhs::N(x), kind: if d { DivKind::Div } else { DivKind::Rem }, form: FORMS[f] }
        });
        prop_oneof![3 => vec_case, 1 => nat_case].boxed()
    }
    fn exhaustive_subspaces(&self, tier: Tier) -> Vec<String> {
        let k = tier.pick(4, 6);
        vec![
            format!("all values of dividend and divisor for all lengths n,m<={} x 20x20 type pairings x {{/,%,div_rem}} (operator form rotates)", k),
            "divisor-length sweep: every divisor length m in 1..capacity+70 with value 1,2,3 for each fixed dividend type x each divisor type able to hold m bits".into(),
        ]
    }
    fn enumerate(&self, tier: Tier, sh: &mut Shard, f: &mut dyn FnMut(C02Case) -> bool) {
        let k = tier.pick(4, 6);
        let mut rot = 0usize;
        let kinds = [DivKind::Div, DivKind::Rem, DivKind::DivRem];
        for lt in ROUTINE_TIDS {
            for rt in ROUTINE_TIDS {
                if !sh.mine() {
                    continue;
                }
                for n in 0..=k {
                    for m in 0..=k {
                        for a in all_values(n) {
                            for b in all_values(m) {
                                for kind in kinds {
                                    for pa in scope_provs(lt) {
                                        for pb in scope_provs(rt) {
                                            rot += 1;
                                            let c = C02Case { a: Operand::fitted(lt, a.clone(), pa.clone()), b: Rhs::V(Operand::fitted(rt, b.clone(), pb)), kind, form: FORMS[rot % 6] };
                                            if !f(c) {
                                                return;
                                            }
                                        }
                                    }
                                }
                            }
                        }
                    }
                }
            }
        }
        for lt in ROUTINE_TIDS {
            for nty in NAT_TYS {
                if !sh.mine() {
                    continue;
                }
                let c = fixed_cap(lt).unwrap_or(192);
                let w = WORD_BITS[lt as usize];
                let mut avals: Vec<Bits> = vec![];
                for n in 0..=k {
                    avals.extend(all_values(n));
                }
                avals.extend([Bits::ones(c), realize_val(&ValPat::Alt(true), c, w), Bits::ones(c.saturating_sub(1))]);
                for a in &avals {
                    for x in nat_lattice(nty) {
                        for kind in [DivKind::Div, DivKind::Rem] {
                            rot += 1;
                            let c = C02Case { a: Operand::canon(lt, a.clone()), b: Rhs::N(Nat::new(nty, x)), kind, form: FORMS[rot % 6] };
                            if !f(c) {
                                return;
                            }
                        }
                    }
                }
            }
        }
        // word-pattern lattice {0,1,MAX}^3 for dividend and divisor on the 64-bit-word types
        for (lt, rt) in [(TID_D, TID_D), (TID_A, TID_D), (TID_D, 11u8), (11u8, TID_D), (TID_A, TID_A), (TID_D, 13u8)] {
            if !sh.mine() {
                continue;
            }
            let pats = |code: usize, n: usize| -> Bits {
                let mut c = code;
                let mut b = Vec::with_capacity(192);
                for _ in 0..3 {
                    let w = c % 3;
                    c /= 3;
                    for k in 0..64 {
                        b.push(match w { 0 => false, 1 => k == 0, _ => true });
                    }
                }
                b.truncate(n);
                Bits(b)
            };
            for n in [129usize, 192] {
                for ac in 0..27 {
                    for bc in 1..27 {
                        for kind in kinds {
                            rot += 1;
                            let c = C02Case { a: Operand::canon(lt, pats(ac, 192)), b: Rhs::V(Operand::canon(rt, pats(bc, n))), kind, form: FORMS[rot % 6] };
                            if !f(c) {
                                return;
                            }
                        }
                    }
                }
            }
        }
        // thousands of bits
        for (lt, rt) in [(TID_D, TID_D), (TID_A, TID_D), (TID_D, TID_A), (TID_D, 18u8), (18u8, TID_D), (TID_A, 11u8)] {
            if !sh.mine() {
                continue;
            }
            let lc = fixed_cap(lt).unwrap_or(usize::MAX);
            let rc = fixed_cap(rt).unwrap_or(usize::MAX);
            for n in [1025usize, 2048, 4097] {
                let n = n.min(lc);
                for m in [n, n / 2 + 7, 576usize, 64] {
                    let m = m.min(rc);
                    for a in long_values(n) {
                        for b in [long_values(m)[1].clone(), long_values(m)[2].clone(), Bits::from_u128(3, m), long_values(m)[5].clone()] {
                            for kind in kinds {
                                rot += 1;
                                let c = C02Case { a: Operand::canon(lt, a.clone()), b: Rhs::V(Operand::canon(rt, b.clone())), kind, form: FORMS[rot % 6] };
                                if !f(c) {
                                    return;
                                }
                            }
                        }
                    }
                }
            }
        }
        // divisor-length sweep (the "long but small divisor" class)
        // the 70 400-bit type as dividend (cut to a few thousand bits: cost) and as divisor
        for (lt, rt) in [(TID_HUGE, TID_HUGE), (TID_HUGE, TID_D), (TID_HUGE, TID_A), (TID_HUGE, 4u8), (TID_D, TID_HUGE), (TID_A, TID_HUGE), (18u8, TID_HUGE)] {
            if !sh.mine() {
                continue;
            }
            let lc = fixed_cap(lt).unwrap_or(usize::MAX);
            let rc = fixed_cap(rt).unwrap_or(usize::MAX);
            for n in [131usize, 1003, 4097] {
                let n = n.min(lc);
                for m in [n, n / 2 + 7, 64usize, 9000] {
                    let m = m.min(rc);
                    for (a, b) in [(long_values(n)[1].clone(), long_values(m)[1].clone()), (Bits::ones(n), Bits::from_u128(3, m)), (long_values(n)[5].clone(), Bits::ones(m.min(n / 2))), (Bits::ones(n), Bits::zeros(m))] {
                        for kind in kinds {
                            rot += 1;
                            let c = C02Case { a: Operand::canon(lt, a.clone()), b: Rhs::V(Operand::canon(rt, b.clone())), kind, form: FORMS[rot % 6] };
                            if !f(c) {
                                return;
                            }
                        }
                    }
                }
            }
        }
        for lt in FIXED_TIDS {
            if lt == TID_HUGE {
                continue;
            }
            for rt in ROUTINE_TIDS {
                if !sh.mine() {
                    continue;
                }
                let c = fixed_cap(lt).unwrap();
                let rc = fixed_cap(rt).unwrap_or(c + 70);
                let a = realize_val(&ValPat::Alt(true), c, 8);
                let a2 = realize_val(&ValPat::LowOnes(30000), c / 2 + 1, 8);
                // every divisor length for ordinary types; for the 2560-bit type a dense prefix, a
                // stride through the middle and every length around the capacity
                let top = rc.min(c + 70);
                let ms: Vec<usize> = if c > 300 { (1..=200usize).chain((201..c.saturating_sub(5)).step_by(17)).chain(c.saturating_sub(5)..=top).filter(|&m| m <= top).collect() } else { (1..=top).collect() };
                for m in ms {
                    for v in [1u128, 2, 3] {
                        if m < 2 && v > 1 {
                            continue;
                        }
                        for (kind, aa) in [(DivKind::Div, &a), (DivKind::Rem, &a2), (DivKind::DivRem, &a)] {
                            rot += 1;
                            let cse = C02Case { a: Operand::canon(lt, aa.clone()), b: Rhs::V(Operand::canon(rt, Bits::from_u128(v, m))), kind, form: FORMS[rot % 6] };
                            if !f(cse) {
                                return;
                            }
                        }
                    }
                }
            }
        }
    }

    fn check(&self, case: &C02Case, st: &mut Stats) -> CheckResult {
        let C02Case { a, b, kind, form } = case;
        let kind = if matches!(b, Rhs::N(_)) && *kind == DivKind::DivRem { DivKind::Div } else { *kind };
        let kname = match kind {
            DivKind::Div => "div",
            DivKind::Rem => "rem",
            DivKind::DivRem => "div_rem",
        };
        let what = format!("{}:{}:{}x{}", kname, shape_class(a, b), kind_of(a.ty), rhs_kind(b));
        let za = build_checked(a, "dividend")?;
        let rb = build_rhs_checked(b)?;
        let bbits = b.bits();
        let n = a.len();
        let desc = || format!("{} {} {} ({:?})", a.describe(), kname, b.describe(), form);
        if kind != DivKind::DivRem {
            check_aliased(&za, a, b, if kind == DivKind::Div { BinOp::Div } else { BinOp::Rem }, &what, st)?;
        }
        let out = self.run(&za, &rb, kind, *form);
        if bbits.is_zero() {
            // every form must panic
            st.class("zero divisor");
            st.class(&format!("zero divisor:{}", kname));
            st.class_if(b.len() == 0, "empty divisor");
            ensure!(out.is_err(), format!("{}/zero-divisor-returned", what), "{}: divisor value is zero but the call returned instead of panicking", desc());
            st.note(case, false);
            return Ok(());
        }
        let (q, r) = match out {
            Ok(x) => x,
            Err(p) => fail!(format!("{}/panic", what), "{}: non-zero divisor but the call panicked: {}", desc(), p),
        };
        let eq = model_bin(&a.bits, &bbits, BinOp::Div).unwrap();
        let er = model_bin(&a.bits, &bbits, BinOp::Rem).unwrap();
        if let Some(q) = &q {
            ensure!(q.tid() == a.ty, format!("{}/type", what), "quotient type differs from dividend type");
            battery_z(q, &eq, strength(st), &format!("{}/quotient", what)).map_err(|mut v| {
                v.msg = format!("{}: quotient: {}", desc(), v.msg);
                v
            })?;
        }
        if let Some(r) = &r {
            ensure!(r.tid() == a.ty, format!("{}/type", what), "remainder type differs from dividend type");
            battery_z(r, &er, strength(st), &format!("{}/remainder", what)).map_err(|mut v| {
                v.msg = format!("{}: remainder: {}", desc(), v.msg);
                v
            })?;
        }
        if let (Some(q), Some(r)) = (&q, &r) {
            // q*b + r = a and r < b, directly on the read-back values
            let qv = read_bits_z(q).to_big();
            let rv = read_bits_z(r).to_big();
            let bv = bbits.to_big();
            ensure!(&qv * &bv + &rv == a.bits.to_big() && rv < bv, format!("{}/identity", what), "{}: q*b+r != a or r >= b (q={}, r={})", desc(), qv, rv);
        }
        unchanged(&za, &a.bits, &what)?;
        if let BuiltRhs::V(zb) = &rb {
            unchanged(zb, &bbits, &what)?;
        }
        let m = b.len();
        let runs_loop = bbits.to_big() <= a.bits.to_big();
        st.class(shape_class(a, b));
        st.class(&format!("kind:{}", kname));
        st.class(a.prov.class());
        st.class_if(m > n, "divisor longer than dividend");
        st.class_if(fixed_cap(a.ty).map_or(false, |c| m > c), "divisor longer than dividend capacity");
        st.class_if(n == 0, "empty dividend");
        st.class_if(runs_loop, "divisor <= dividend");
        st.note(case, runs_loop && eq.popcount() >= 2);
        Ok(())
    }
    fn assumptions(&self) -> Vec<String> {
        vec![
            "trusted bridge: zeros(n)+set(i) builds canonical operands, len()+get(i) reads results back".into(),
            "oracle: num-bigint BigUint / native u128 division".into(),
            "any panic is accepted for a zero divisor (the property does not specify the message)".into(),
        ]
    }
}
