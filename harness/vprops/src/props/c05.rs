//! C05 - shifts are logical, length-preserving and zero-fill for every shift amount;
//! shl_in / shr_in shift by exactly one position.

use super::c20::model_shift;
use super::common::*;
use crate::battery::battery_z;
use crate::engine::*;
use crate::gen::*;
use crate::spec::*;
use crate::stats::Stats;
use crate::fail;
use proptest::prelude::*;
use serde::{Deserialize, Serialize};
use vcore::*;

#[derive(Clone, Debug, Hash, Serialize, Deserialize)]
pub enum C05Case {
    Shift { a: Operand, amt: Nat, left: bool, form: ShForm },
    ShIn { a: Operand, bit: bool, left: bool },
}

pub struct C05;

#[derive(Clone, Debug)]
enum AmtSel {
    /// relative to the length: 0..=2n+1
    Rel(u16),
    /// lattice index
    Lattice(u8),
    /// anywhere in the type
    Whole(u128),
}

fn amt_lattice(n: usize, w: usize, ty: NatTy) -> Vec<u128> {
    let n = n as u128;
    let w = w as u128;
    let mut v: Vec<u128> = vec![0, 1, w.saturating_sub(1), w, w + 1, n.saturating_sub(1), n, n + 1, 2 * n, 255, 256, 1 << 16, 1 << 32, (1 << 32) + 1, u64::MAX as u128 - 1, u64::MAX as u128, 1u128 << 64, (1u128 << 64) + 1, (1u128 << 64) + n.max(1) - 1, 1u128 << 100, u128::MAX - 1, u128::MAX];
    v.retain(|&x| x <= ty.maxv());
    v.push(ty.maxv());
    v.sort();
    v.dedup();
    v
}

fn realize_amt(sel: &AmtSel, n: usize, w: usize, ty: NatTy) -> Nat {
    match sel {
        AmtSel::Rel(f) => Nat::new(ty, (frac(*f, 2 * n + 2) as u128).min(ty.maxv())),
        AmtSel::Lattice(i) => {
            let l = amt_lattice(n, w, ty);
            Nat::new(ty, l[((*i as usize) * l.len()) >> 8])
        }
        AmtSel::Whole(x) => Nat::new(ty, *x),
    }
}

impl Property for C05 {
    type Case = C05Case;
    fn id(&self) -> &'static str {
        "C05"
    }
    fn rule(&self) -> String {
        "Cases: (operand of any zoo type/length/provenance, shift amount of one of six native types, direction, one of six operator forms) and (operand, shl_in|shr_in, supplied bit). Amounts: relative to the length (0..2n+1), a lattice {0,1,w-1,w,w+1,n-1,n,n+1,2n,2^8-1,2^16,2^32,2^64-1,2^64,2^64+1,2^64+n-1,2^100,type max}, and uniform over the whole type. Enumerated: every (n,k), n<=min(C,72) quick / 320 thorough, k in 0..n+2, three value classes, 20 types, both directions, amount type and form rotating over all 36 combinations (all 36 for n<=20); all values for n<=8; shl_in/shr_in on all values n<=10 and every length with three value classes; long vectors: every length 321..2600 (thorough 8300), Bvd/Bv at 1100..4100 bits, the 70 400-bit fixed type at 7 lengths x 18 amounts, and a geometric ladder of lengths around every power of two from 2^14 to 2^21 (thorough 2^24) bits x 10 amounts. Oracle: index arithmetic on the bit list + observer battery; returned bit of shl_in/shr_in. Non-trivial: 0<k<n with some set bit surviving and some set bit falling off; for shl_in/shr_in: n>=2. Distinct by hash of the case.".into()
    }
    fn random_cases(&self, tier: Tier) -> u64 {
        tier.pick(200000, 8000000)
    }
    fn strategy(&self, tier: Tier) -> BoxedStrategy<C05Case> {
        let sel = prop_oneof![
            4 => any::<u16>().prop_map(AmtSel::Rel),
            3 => any::<u8>().prop_map(AmtSel::Lattice),
            1 => any::<u128>().prop_map(AmtSel::Whole),
        ];
        let shift = (arb_operand(tier), arb_nat_ty(), sel, any::<bool>(), 0usize..6).prop_map(|(a, ty, sel, left, f)| {
            let amt = realize_amt(&sel, a.len(), WORD_BITS[a.ty as usize], ty);
            C05Case::Shift { a, amt, left, form: SH_FORMS[f] }
        });
        let shin = (arb_operand(tier), any::<bool>(), any::<bool>()).prop_map(|(a, bit, left)| C05Case::ShIn { a, bit, left });
        prop_oneof![5 => shift, 1 => shin].boxed()
    }
    fn exhaustive_subspaces(&self, tier: Tier) -> Vec<String> {
        vec![
            format!("every (length n, amount k) with n<=min(capacity,{}) and k in 0..=n+2, three value classes, both directions, all 20 types (amount type x form rotate; all 36 combinations for n<=20)", tier.pick(72, 320)),
            "all values for n<=8 x every k in 0..=n+1 x both directions x 20 types".into(),
            "shl_in/shr_in: all values n<=10 x both supplied bits x 20 types".into(),
        ]
    }
    fn enumerate(&self, tier: Tier, sh: &mut Shard, f: &mut dyn FnMut(C05Case) -> bool) {
        let nmax = tier.pick(72, 320);
        let mut rot = 0usize;
        for t in ROUTINE_TIDS {
            let c = fixed_cap(t).unwrap_or(nmax).min(nmax);
            for n in 0..=c {
                if !sh.mine() {
                    continue;
                }
                let vals: Vec<Bits> = if n <= 8 { all_values(n).collect() } else { three_values(n).to_vec() };
                for a in &vals {
                    for k in 0..=(n + 2) {
                        for left in [true, false] {
                            let combos: Vec<usize> = if n <= 20 && a == &vals[vals.len() - 1] { (0..36).collect() } else { rot += 1; vec![rot % 36] };
                            for cb in combos {
                                let ty = NAT_TYS[cb / 6];
                                if k as u128 > ty.maxv() {
                                    continue;
                                }
                                let c = C05Case::Shift { a: Operand::canon(t, a.clone()), amt: Nat::new(ty, k as u128), left, form: SH_FORMS[cb % 6] };
                                if !f(c) {
                                    return;
                                }
                            }
                        }
                    }
                }
                // huge amounts at every length
                for ty in NAT_TYS {
                    for x in amt_lattice(n, WORD_BITS[t as usize], ty) {
                        if x <= (n + 2) as u128 {
                            continue;
                        }
                        rot += 1;
                        let c = C05Case::Shift { a: Operand::canon(t, Bits::ones(n)), amt: Nat::new(ty, x), left: rot % 2 == 0, form: SH_FORMS[rot % 6] };
                        if !f(c) {
                            return;
                        }
                    }
                }
            }
        }
        // every length up to the dense bound
        for (t, n) in dense_lengths(tier) {
            if !sh.mine() {
                continue;
            }
            let a = dense_value(n);
            for (j, k) in [1usize, 64, n / 2, n - 1].into_iter().enumerate() {
                for left in [true, false] {
                    let c = C05Case::Shift { a: Operand::canon(t, a.clone()), amt: Nat::new(NatTy::U64, k as u128), left, form: SH_FORMS[(n + j) % 6] };
                    if !f(c) {
                        return;
                    }
                }
            }
            for left in [true, false] {
                if !f(C05Case::ShIn { a: Operand::canon(t, a.clone()), bit: true, left }) {
                    return;
                }
            }
        }
        // vectors of thousands of bits: amounts around 1024 and around n, all six forms
        for t in [TID_D, TID_A] {
            for n in [1100usize, 2047, 2048, 2049, 4096, 4100] {
                if !sh.mine() {
                    continue;
                }
                let ks = [1usize, 63, 64, 1000, 1023, 1024, 1025, 1030, 1044, 1088, n - 1024, n - 65, n - 64, n - 1];
                for a in [Bits::ones(n), realize_val(&ValPat::Dense(vec![0x9E37_79B9_7F4A_7C15, 0xD1B5_4A32_D192_ED03, 0x0123_4567_89AB_CDEF]), n, 64), realize_val(&ValPat::OneHot(1000), n, 64)] {
                    for &k in &ks {
                        if k >= n {
                            continue;
                        }
                        for left in [true, false] {
                            for form in SH_FORMS {
                                let c = C05Case::Shift { a: Operand::canon(t, a.clone()), amt: Nat::new(NatTy::Usize, k as u128), left, form };
                                if !f(c) {
                                    return;
                                }
                            }
                        }
                    }
                }
            }
        }
        // the 70 400-bit fixed type: all six forms, amounts around word, 4096-bit and 2^16 boundaries
        for n in HUGE_TYPE_LENS {
            if !sh.mine() {
                continue;
            }
            let ks = [1usize, 13, 63, 64, 65, 1024, 4095, 4096, 4099, 8191, 8200, 65535, 65536, 65540, n / 2 + 5, n.saturating_sub(64), n - 1, n];
            for a in [long_values(n)[1].clone(), Bits::ones(n)] {
                for &k in &ks {
                    if k > n {
                        continue;
                    }
                    for left in [true, false] {
                        rot += 1;
                        for form in [SH_FORMS[rot % 6], SH_FORMS[(rot + 3) % 6]] {
                            if !f(C05Case::Shift { a: Operand::canon(TID_HUGE, a.clone()), amt: Nat::new(NatTy::Usize, k as u128), left, form }) {
                                return;
                            }
                        }
                    }
                }
                for left in [true, false] {
                    if !f(C05Case::ShIn { a: Operand::canon(TID_HUGE, a.clone()), bit: true, left }) {
                        return;
                    }
                }
            }
        }
        // geometric ladder of lengths up to megabits on the unbounded types
        for (t, n) in ladder_lengths(tier) {
            if !sh.mine() {
                continue;
            }
            let a = dense_value(n);
            for (j, k) in [1usize, 5, 63, 64, 65, 4099, 65541, n / 2 + 3, n - 65, n - 1].into_iter().enumerate() {
                if k >= n {
                    continue;
                }
                rot += 1;
                let left = (rot + j) % 2 == 0;
                if !f(C05Case::Shift { a: Operand::canon(t, a.clone()), amt: Nat::new(NatTy::Usize, k as u128), left, form: SH_FORMS[rot % 6] }) {
                    return;
                }
                if j % 3 == 0 && !f(C05Case::Shift { a: Operand { ty: t, bits: a.clone(), prov: Prov::Spare(200) }, amt: Nat::new(NatTy::U32, k as u128), left: !left, form: SH_FORMS[(rot + 1) % 6] }) {
                    return;
                }
            }
            for left in [true, false] {
                if !f(C05Case::ShIn { a: Operand::canon(t, a.clone()), bit: true, left }) {
                    return;
                }
            }
        }
        // word-aligned amounts on vectors with spare capacity / heap-mode Bv, all six forms
        for t in [TID_D, TID_A] {
            for prov in [Prov::Spare(64), Prov::Spare(200), Prov::LongThenTrunc(130)] {
                if !sh.mine() {
                    continue;
                }
                for n in [1usize, 63, 64, 65, 100, 128, 129, 192, 200] {
                    for k in [0usize, 1, 63, 64, 65, 127, 128, 129, 192] {
                        if k > n + 1 {
                            continue;
                        }
                        for a in [Bits::ones(n), realize_val(&ValPat::OneHot(40000), n, 64)] {
                            for left in [true, false] {
                                for form in SH_FORMS {
                                    let c = C05Case::Shift { a: Operand { ty: t, bits: a.clone(), prov: prov.clone() }, amt: Nat::new(NatTy::U64, k as u128), left, form };
                                    if !f(c) {
                                        return;
                                    }
                                }
                            }
                            for bit in [false, true] {
                                for left in [true, false] {
                                    if !f(C05Case::ShIn { a: Operand { ty: t, bits: a.clone(), prov: prov.clone() }, bit, left }) {
                                        return;
                                    }
                                }
                            }
                        }
                    }
                }
            }
        }
        for t in ROUTINE_TIDS {
            if !sh.mine() {
                continue;
            }
            let c = fixed_cap(t).unwrap_or(nmax).min(nmax);
            for n in 0..=c {
                let vals: Vec<Bits> = if n <= 10 { all_values(n).collect() } else { three_values(n).to_vec() };
                for a in &vals {
                    for bit in [false, true] {
                        for left in [true, false] {
                            if !f(C05Case::ShIn { a: Operand::canon(t, a.clone()), bit, left }) {
                                return;
                            }
                        }
                    }
                }
            }
        }
    }

    fn check(&self, case: &C05Case, st: &mut Stats) -> CheckResult {
        match case {
            C05Case::Shift { a, amt, left, form } => {
                let dir = if *left { "shl" } else { "shr" };
                let what = format!("{}:{}:{}:{}", dir, kind_of(a.ty), amt.ty.name(), if amt.v > usize::MAX as u128 { "amount>usize" } else if amt.v >= a.len() as u128 { "amount>=len" } else { "amount<len" });
                let za = build_checked(a, "subject")?;
                let e = model_shift(&a.bits, *left, amt.v);
                let r = match catch(|| z_match!(&za, v => v.shift_x(*left, *amt, *form).wrap())) {
                    Ok(r) => r,
                    Err(p) => fail!(format!("{}/panic", what), "{} {} {}{} ({:?}) panicked: {}", a.describe(), if *left { "<<" } else { ">>" }, amt.v, amt.ty.name(), form, p),
                };
                battery_z(&r, &e, strength(st), &what).map_err(|mut v| {
                    v.msg = format!("{} {} {}{} ({:?}): {}", a.describe(), if *left { "<<" } else { ">>" }, amt.v, amt.ty.name(), form, v.msg);
                    v
                })?;
                unchanged(&za, &a.bits, &what)?;
                let n = a.len() as u128;
                let w = WORD_BITS[a.ty as usize] as u128;
                st.class(dir);
                st.class(&format!("amount type {}", amt.ty.name()));
                st.class(&format!("form:{:?}", form));
                st.class(a.prov.class());
                st.class_if(amt.v >= n, "k >= n");
                st.class_if(amt.v > 0 && amt.v < n && amt.v % w == 0, "k multiple of word size");
                st.class_if(amt.v > usize::MAX as u128, "k > usize::MAX");
                let survive = !e.is_zero();
                let lost = e.popcount() < a.bits.popcount();
                st.note(case, amt.v > 0 && amt.v < n && survive && lost);
                Ok(())
            }
            C05Case::ShIn { a, bit: b, left } => {
                let what = format!("{}:{}", if *left { "shl_in" } else { "shr_in" }, kind_of(a.ty));
                let mut za = build_checked(a, "subject")?;
                let n = a.len();
                let (e, eret) = if n == 0 {
                    (Bits::new(), *b)
                } else if *left {
                    let mut v = vec![*b];
                    v.extend_from_slice(&a.bits.0[..n - 1]);
                    (Bits(v), a.bits.0[n - 1])
                } else {
                    let mut v = a.bits.0[1..].to_vec();
                    v.push(*b);
                    (Bits(v), a.bits.0[0])
                };
                let ret = match catch(|| z_match!(&mut za, v => if *left { v.shl_in(bit(*b)) } else { v.shr_in(bit(*b)) })) {
                    Ok(r) => r,
                    Err(p) => fail!(format!("{}/panic", what), "{}.{}({}) panicked: {}", a.describe(), what, *b as u8, p),
                };
                if unbit(ret) != eret {
                    fail!(format!("{}/returned-bit", what), "{}.{}({}) returned {:?}, model predicts {}", a.describe(), what, *b as u8, ret, eret as u8);
                }
                battery_z(&za, &e, strength(st), &what).map_err(|mut v| {
                    v.msg = format!("{}.{}({}): {}", a.describe(), what, *b as u8, v.msg);
                    v
                })?;
                st.class(if *left { "shl_in" } else { "shr_in" });
                st.class_if(n == 0, "shl_in/shr_in on empty");
                st.note(case, n >= 2);
                Ok(())
            }
        }
    }
}
