//! C15 - parsing accepts exactly binary/hex digit strings and inverts formatting.

use super::common::*;
use crate::battery::battery_z;
use crate::engine::*;
use crate::gen::*;
use crate::spec::*;
use crate::stats::Stats;
use crate::{ensure, fail};
use proptest::collection::vec;
use proptest::prelude::*;
use serde::{Deserialize, Serialize};
use vcore::*;

#[derive(Clone, Debug, Hash, Serialize, Deserialize)]
pub enum C15Case {
    Parse { ty: Tid, s: String, hex: bool },
    /// parse(format(v)) for {:b}, {:x}, {:X}
    RoundTrip { a: Operand },
}

pub struct C15;

const BAD: [char; 16] = ['2', 'g', 'G', ' ', '+', '_', 'x', '-', '\u{e9}', '\u{661}', '\u{ff11}', '\u{1f600}', 'z', '\n', '\u{0}', '\u{ff21}'];

fn digit_val(c: char, hex: bool) -> Option<u8> {
    match c {
        '0' => Some(0),
        '1' => Some(1),
        '2'..='9' if hex => Some(c as u8 - b'0'),
        'a'..='f' if hex => Some(c as u8 - b'a' + 10),
        'A'..='F' if hex => Some(c as u8 - b'A' + 10),
        _ => None,
    }
}

fn parse_call(ty: Tid, s: &str, hex: bool) -> Result<Result<Z, ConvertionError>, String> {
    catch(|| tid_match!(ty, T => if hex { T::from_hex(s) } else { T::from_binary(s) }.map(|v| v.wrap())))
}

impl Property for C15 {
    type Case = C15Case;
    fn id(&self) -> &'static str {
        "C15"
    }
    fn rule(&self) -> String {
        "Cases: (zoo type, string, binary|hex): valid digit strings (mixed case, leading zeros, empty) of 0..C+4 characters (<=300 for Bvd/Bv, both sides of the 128-bit inline limit), and strings with one or several offending characters at generated positions drawn from ASCII near-misses (2 g G space + _ x -) and non-ASCII (e-acute, Arabic-Indic and full-width digits, emoji, full-width A); plus parse(format(v)) round trips for {:b},{:x},{:X}. Oracle: reference parser over chars(): all valid and fitting -> length |s| (4|s|), first character most significant; fitting with an offending character -> InvalidFormat(index of the first one, in characters); all valid and too long -> NotEnoughCapacity; too long and invalid -> some Err. Long inputs: round trips at 1024..32768 bits and every length 321..2600 (thorough 8300); the 70 400-bit fixed type with strings of capacity-1, capacity and capacity+1 digits in both radices and an offending character at 5 positions; a geometric ladder of lengths around every power of two from 2^14 to 2^21 (thorough 2^24) bits on Bvd/Bv (round trip, and an offending character deep inside). Enumerated: every error position for every string length <=min(C+1,140) per type and radix; all binary strings of length <=10. Non-trivial: |s|>0 and (leading zeros, or an error position other than 0, or a length within 1 character of the capacity / inline limit, or mixed case). Distinct by hash of the case.".into()
    }
    fn random_cases(&self, tier: Tier) -> u64 {
        tier.pick(250000, 8000000)
    }
    fn strategy(&self, tier: Tier) -> BoxedStrategy<C15Case> {
        let lmax = tier.pick(300, 600);
        let parse = (arb_tid(), any::<bool>(), arb_len_sel(), any::<u8>(), vec(any::<u8>(), 1..40), vec((any::<u16>(), 0usize..16), 0..3), 0u8..4).prop_map(move |(ty, hex, ls, over, digs, bads, nbad_sel)| {
            let per = if hex { 4 } else { 1 };
            let capc = fixed_cap(ty).map(|c| c / per);
            // length in characters: mostly within capacity, sometimes up to 4 beyond
            let base = realize_len(&ls, ty, lmax) / per;
            let nchars = match capc {
                Some(c) if over < 40 => c + 1 + (over as usize % 4),
                Some(c) => base.min(c),
                None => base,
            };
            let alphabet: &[u8] = if hex { b"0123456789abcdefABCDEF" } else { b"01" };
            let mut chars: Vec<char> = (0..nchars).map(|i| {
                let d = digs[i % digs.len()].wrapping_add(((i / digs.len()) as u8).wrapping_mul(7));
                // a run of leading zeros in a quarter of the strings
                if over % 4 == 1 && i < nchars / 3 { '0' } else { alphabet[d as usize % alphabet.len()] as char }
            }).collect();
            let nbad = if nbad_sel == 0 { bads.len() } else { 0 };
            for (f, which) in bads.iter().take(nbad) {
                if nchars > 0 {
                    chars[frac(*f, nchars)] = BAD[*which];
                }
            }
            C15Case::Parse { ty, s: chars.into_iter().collect(), hex }
        });
        let rt = arb_operand(tier).prop_map(|a| C15Case::RoundTrip { a });
        prop_oneof![5 => parse, 1 => rt].boxed()
    }
    fn exhaustive_subspaces(&self, _tier: Tier) -> Vec<String> {
        vec![
            "every position of a single offending character in valid strings of every length <=min(capacity+1,140) characters, per type and radix, for 5 offending characters (ASCII letter/digit, +, -, 2-byte, 4-byte)".into(),
            "all binary strings of length <=10 on all 20 types; all hex strings of length <=2".into(),
        ]
    }
    fn enumerate(&self, tier: Tier, sh: &mut Shard, f: &mut dyn FnMut(C15Case) -> bool) {
        for ty in ROUTINE_TIDS {
            for hex in [false, true] {
                let per = if hex { 4 } else { 1 };
                let maxc = fixed_cap(ty).map_or(140, |c| (c / per + 1).min(140));
                for n in 0..=maxc {
                    if !sh.mine() {
                        continue;
                    }
                    let valid: Vec<char> = (0..n).map(|i| if hex { b"0f1E9a"[i % 6] as char } else { b"011"[i % 3] as char }).collect();
                    if !f(C15Case::Parse { ty, s: valid.iter().collect(), hex }) {
                        return;
                    }
                    for pos in 0..n {
                        for bad in ['g', '+', '-', '\u{661}', '\u{1f600}'] {
                            let mut c = valid.clone();
                            c[pos] = if !hex && bad == 'g' { '2' } else { bad };
                            if !f(C15Case::Parse { ty, s: c.into_iter().collect(), hex }) {
                                return;
                            }
                        }
                    }
                }
            }
        }
        // parse(format(v)) for long vectors: around powers of two up to 2^15 and every length of
        // the dense sweep
        for t in [TID_D, TID_A] {
            let mut ns: Vec<usize> = vec![];
            for c in [1024usize, 2048, 4096, 8192, 12288, 16384, 32768] {
                ns.extend((c - 5)..=(c + 5));
            }
            for n in ns {
                if !sh.mine() {
                    continue;
                }
                for a in [Bits::ones(n), dense_value(n), long_values(n)[5].clone()] {
                    if !f(C15Case::RoundTrip { a: Operand::canon(t, a) }) {
                        return;
                    }
                }
            }
        }
        // the 70 400-bit fixed type (long strings that fit, just fit, and do not fit) and a
        // geometric ladder of lengths up to megabits on the unbounded types
        for n in HUGE_TYPE_LENS {
            if !sh.mine() {
                continue;
            }
            for a in [Bits::ones(n), dense_value(n)] {
                if !f(C15Case::RoundTrip { a: Operand::canon(TID_HUGE, a) }) {
                    return;
                }
            }
        }
        for (hex, nd) in [(false, 70_399usize), (false, 70_400), (false, 70_401), (true, 17_599), (true, 17_600), (true, 17_601), (false, 65_537), (true, 16_385)] {
            if !sh.mine() {
                continue;
            }
            let valid: Vec<char> = (0..nd).map(|i| if hex { b"0f1E9a"[i % 6] as char } else { b"011"[i % 3] as char }).collect();
            if !f(C15Case::Parse { ty: TID_HUGE, s: valid.iter().collect(), hex }) {
                return;
            }
            for pos in [0usize, 1, nd / 2, nd - 65_536.min(nd - 1), nd - 1] {
                let mut c = valid.clone();
                c[pos] = if hex { 'g' } else { '2' };
                if !f(C15Case::Parse { ty: TID_HUGE, s: c.into_iter().collect(), hex }) {
                    return;
                }
            }
        }
        for (t, n) in ladder_lengths(tier) {
            if !sh.mine() {
                continue;
            }
            if !f(C15Case::RoundTrip { a: Operand::canon(t, dense_value(n)) }) {
                return;
            }
            // an invalid character deep inside a long string
            let hex = n % 2 == 0;
            let nd = if hex { n / 4 } else { n };
            let mut c: Vec<char> = (0..nd).map(|i| if hex { b"0f1E9a"[i % 6] as char } else { b"011"[i % 3] as char }).collect();
            c[nd - nd / 3] = '\u{661}';
            if !f(C15Case::Parse { ty: t, s: c.into_iter().collect(), hex }) {
                return;
            }
        }
        for (t, n) in dense_lengths(tier) {
            if !sh.mine() {
                continue;
            }
            if !f(C15Case::RoundTrip { a: Operand::canon(t, dense_value(n)) }) {
                return;
            }
        }
        for ty in ROUTINE_TIDS {
            if !sh.mine() {
                continue;
            }
            for n in 0..=10usize {
                for a in all_values(n) {
                    if !f(C15Case::Parse { ty, s: a.msb_string(), hex: false }) {
                        return;
                    }
                }
            }
            let hexd: Vec<char> = "0123456789abcdefABCDEFgG".chars().collect();
            for &c1 in &hexd {
                if !f(C15Case::Parse { ty, s: c1.to_string(), hex: true }) {
                    return;
                }
                for &c2 in &hexd {
                    if !f(C15Case::Parse { ty, s: [c1, c2].iter().collect(), hex: true }) {
                        return;
                    }
                }
            }
        }
    }
    fn check(&self, case: &C15Case, st: &mut Stats) -> CheckResult {
        match case {
            C15Case::Parse { ty, s, hex } => {
                let what = format!("{}:{}", if *hex { "from_hex" } else { "from_binary" }, kind_of(*ty));
                let chars: Vec<char> = s.chars().collect();
                let per = if *hex { 4 } else { 1 };
                let blen = chars.len() * per;
                let fits = fixed_cap(*ty).map_or(true, |c| blen <= c);
                let first_bad = chars.iter().position(|&c| digit_val(c, *hex).is_none());
                let r = match parse_call(*ty, s, *hex) {
                    Ok(r) => r,
                    Err(p) => fail!(format!("{}/panic", what), "{}::{}({:?}) panicked: {}", NAMES[*ty as usize], what, s, p),
                };
                match (fits, first_bad) {
                    (true, None) => {
                        let z = match r {
                            Ok(z) => z,
                            Err(e) => fail!(format!("{}/rejected-valid", what), "{}::{}({:?}) failed with {:?} on a valid fitting string", NAMES[*ty as usize], what, s, e),
                        };
                        // first character most significant
                        let mut bits = vec![false; blen];
                        for (i, &c) in chars.iter().enumerate() {
                            let d = digit_val(c, *hex).unwrap();
                            let hi = blen - i * per;
                            for j in 0..per {
                                bits[hi - per + j] = (d >> j) & 1 == 1;
                            }
                        }
                        battery_z(&z, &Bits(bits), strength(st), &what).map_err(|mut v| {
                            v.msg = format!("{}::{}({:?}): {}", NAMES[*ty as usize], what, s, v.msg);
                            v
                        })?;
                    }
                    (true, Some(i)) => {
                        ensure!(r.as_ref().err() == Some(&ConvertionError::InvalidFormat(i)), format!("{}/wrong-error", what), "{}::{}({:?}): expected InvalidFormat({}), got {:?}", NAMES[*ty as usize], what, s, i, r.map(|z| read_bits_z(&z)));
                    }
                    (false, None) => {
                        ensure!(r.as_ref().err() == Some(&ConvertionError::NotEnoughCapacity), format!("{}/wrong-error", what), "{}::{}({} valid chars): expected NotEnoughCapacity, got {:?}", NAMES[*ty as usize], what, chars.len(), r.map(|z| read_bits_z(&z)));
                    }
                    (false, Some(_)) => {
                        ensure!(r.is_err(), format!("{}/accepted-invalid", what), "{}::{}: an over-long invalid string was accepted", NAMES[*ty as usize], what);
                    }
                }
                let n = chars.len();
                let lead0 = n > 1 && chars[0] == '0';
                let mixed = chars.iter().any(|c| c.is_ascii_lowercase()) && chars.iter().any(|c| c.is_ascii_uppercase());
                let near_cap = fixed_cap(*ty).map_or((n as i64 * per as i64 - 128).abs() <= per as i64, |c| (blen as i64 - c as i64).abs() <= per as i64);
                st.class(if *hex { "from_hex" } else { "from_binary" });
                st.class_if(first_bad.is_some(), "has offending character");
                st.class_if(first_bad.map_or(false, |i| i > 0), "offending character not at 0");
                st.class_if(s.len() != n, "contains multi-byte characters");
                st.class_if(!fits, "longer than capacity");
                st.class_if(n == 0, "empty string");
                st.note(case, n > 0 && (lead0 || first_bad.map_or(false, |i| i > 0) || near_cap || mixed));
                Ok(())
            }
            C15Case::RoundTrip { a } => {
                let what = format!("parse(format):{}", kind_of(a.ty));
                let za = build_checked(a, "subject")?;
                let n = a.len();
                // the strings to parse are produced AFTER a formatting call on the same thread has
                // failed part-way (a writer that runs out of room): a formatter must not carry
                // state from one call into the next
                struct Tiny(usize);
                impl std::fmt::Write for Tiny {
                    fn write_str(&mut self, s: &str) -> std::fmt::Result {
                        if s.len() > self.0 {
                            return Err(std::fmt::Error);
                        }
                        self.0 -= s.len();
                        Ok(())
                    }
                }
                let (sb, sx, sxx) = z_match!(&za, v => {
                    use std::fmt::Write;
                    let _ = write!(Tiny(1), "{:b}", v);
                    let sb = format!("{:b}", v);
                    let _ = write!(Tiny(0), "{:x}", v);
                    let sx = format!("{:x}", v);
                    let _ = write!(Tiny(2), "{:#X}", v);
                    let sxx = format!("{:X}", v);
                    (sb, sx, sxx)
                });
                // a precision does not shorten the digits (integer formatting ignores it): what is
                // printed must still parse back to the value
                let (pb, px) = z_match!(&za, v => (format!("{:.3b}", v), format!("{:.2x}", v)));
                ensure!(pb == sb && px == sx, format!("{}/precision", what), "{}: {{:.3b}} / {{:.2x}} print {:?} / {:?}, the plain specifications print {:?} / {:?}", a.describe(), crate::engine::clip(&pb, 200), crate::engine::clip(&px, 200), crate::engine::clip(&sb, 200), crate::engine::clip(&sx, 200));
                for (s, hex, name) in [(&sb, false, "{:b}"), (&sx, true, "{:x}"), (&sxx, true, "{:X}")] {
                    let per = if hex { 4 } else { 1 };
                    if fixed_cap(a.ty).map_or(false, |c| s.len() * per > c) {
                        // only the zero-word types: their empty vector prints as "0", which needs
                        // a bit (a nibble) they do not have
                        match parse_call(a.ty, s, hex) {
                            Ok(Err(ConvertionError::NotEnoughCapacity)) => continue,
                            other => fail!(format!("{}/accepted-overflow", what), "parsing the {} output {:?} of {} (capacity {}) gave {:?}", name, s, a.describe(), fixed_cap(a.ty).unwrap(), other.map(|r| r.map(|z| z.len()))),
                        }
                    }
                    let z = match parse_call(a.ty, s, hex) {
                        Ok(Ok(z)) => z,
                        Ok(Err(e)) => fail!(format!("{}/rejected", what), "parsing the {} output {:?} of {} failed: {:?}", name, s, a.describe(), e),
                        Err(p) => fail!(format!("{}/panic", what), "parsing the {} output of {} panicked: {}", name, a.describe(), p),
                    };
                    // equal in value; length is the string's
                    let e = a.bits.zext(s.len() * per);
                    ensure!(a.bits.significant() <= s.len() * per, format!("{}/format-too-short", what), "{} output {:?} of {} has too few digits", name, s, a.describe());
                    battery_z(&z, &e, strength(st), &what).map_err(|mut v| {
                        v.msg = format!("parse({} of {}): {}", name, a.describe(), v.msg);
                        v
                    })?;
                    ensure!(tab_cmp::eq(&z, &za), format!("{}/not-equal", what), "parse({} of {}) != original", name, a.describe());
                    // re-padded to the original length (binary) -> identical vector
                    if !hex && s.len() <= n {
                        let padded = format!("{}{}", "0".repeat(n - if n == 0 { 0 } else { s.len().min(n) }), if n == 0 { "" } else { s.as_str() });
                        let padded = if n == 0 { String::new() } else { padded };
                        if let Ok(Ok(z2)) = parse_call(a.ty, &padded, false) {
                            battery_z(&z2, &a.bits, strength(st), &format!("{}/padded", what)).map_err(|mut v| {
                                v.msg = format!("parse of the zero-padded {{:b}} output of {}: {}", a.describe(), v.msg);
                                v
                            })?;
                        } else {
                            fail!(format!("{}/padded-rejected", what), "parsing the zero-padded {{:b}} output of {} failed", a.describe());
                        }
                    }
                }
                st.class("parse(format)");
                st.note(case, n > 0 && a.bits.significant() < n);
                Ok(())
            }
        }
    }
}
