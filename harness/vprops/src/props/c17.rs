//! C17 - bit iterators behave like a slice iterator over the bits.

use super::common::*;
use crate::battery::{battery_z, Strength};
use crate::engine::*;
use crate::gen::*;
use crate::spec::*;
use crate::stats::Stats;
use crate::fail;
use proptest::collection::vec;
use proptest::prelude::*;
use serde::{Deserialize, Serialize};
use vcore::*;

/// Argument of nth / nth_back, resolved against the number of remaining items at call time.
#[derive(Clone, Copy, Debug, Hash, PartialEq, Eq, Serialize, Deserialize)]
pub enum KSel {
    Small(u8),
    RemMinus1,
    Rem,
    RemPlus1,
    Max,
    MaxMinus1,
    MaxMinusRem,
    Any(usize),
    /// a fraction of the remaining count (lands anywhere inside the remaining range)
    Frac(u16),
    /// 2^e + s (e in 0..64): arguments just above a power of two, e.g. 2^32 + 5
    Pow2Plus(u8, u8),
}

#[derive(Clone, Copy, Debug, Hash, PartialEq, Eq, Serialize, Deserialize)]
pub enum Call {
    Next,
    NextBack,
    Nth(KSel),
    NthBack(KSel),
    SizeHint,
}

#[derive(Clone, Copy, Debug, Hash, PartialEq, Eq, Serialize, Deserialize)]
pub enum Terminal {
    Count,
    Last,
    Collect,
    /// keep calling next() twice after exhaustion
    Drain,
    /// the provided adaptors that an implementation may override: fold from the front
    Fold,
    /// rfold from the back
    Rfold,
    /// skip(2).step_by(3), then rev() on what is left of a second pass: position/any/all
    Adaptors,
}

#[derive(Clone, Debug, Hash, Serialize, Deserialize)]
pub struct C17Case {
    pub a: Operand,
    /// false: `v.iter()`, true: `(&v).into_iter()`
    pub into_iter: bool,
    pub rev: bool,
    pub calls: Vec<Call>,
    pub term: Terminal,
    /// when present the subject is this giant vector (> 2^31 bits), `a` is ignored (empty) and the
    /// terminal must be count or last (the others walk every item)
    #[serde(default)]
    pub giant: Option<super::giant::GiantSpec>,
}

pub struct C17;

fn resolve(k: KSel, rem: usize) -> usize {
    match k {
        KSel::Small(x) => x as usize,
        KSel::RemMinus1 => rem.saturating_sub(1),
        KSel::Rem => rem,
        KSel::RemPlus1 => rem + 1,
        KSel::Max => usize::MAX,
        KSel::MaxMinus1 => usize::MAX - 1,
        KSel::MaxMinusRem => usize::MAX - rem,
        KSel::Any(x) => x,
        KSel::Frac(f) => (f as usize * (rem + 1)) >> 16,
        KSel::Pow2Plus(e, s) => (1usize << (e % 64)).wrapping_add(s as usize),
    }
}

/// Drive the subject iterator and the oracle iterator with the same calls; first divergence wins.
fn drive<I, J>(mut it: I, mut or: J, calls: &[Call], term: Terminal) -> Result<(), String>
where
    I: DoubleEndedIterator<Item = Bit>,
    J: DoubleEndedIterator<Item = Bit> + ExactSizeIterator,
{
    for (step, c) in calls.iter().enumerate() {
        let rem = or.len();
        let (got, exp, name): (String, String, String) = match c {
            Call::Next => (format!("{:?}", it.next()), format!("{:?}", or.next()), "next()".into()),
            Call::NextBack => (format!("{:?}", it.next_back()), format!("{:?}", or.next_back()), "next_back()".into()),
            Call::Nth(k) => {
                let k = resolve(*k, rem);
                (format!("{:?}", it.nth(k)), format!("{:?}", or.nth(k)), format!("nth({})", k))
            }
            Call::NthBack(k) => {
                let k = resolve(*k, rem);
                (format!("{:?}", it.nth_back(k)), format!("{:?}", or.nth_back(k)), format!("nth_back({})", k))
            }
            Call::SizeHint => (format!("{:?}", it.size_hint()), format!("{:?}", or.size_hint()), "size_hint()".into()),
        };
        if got != exp {
            return Err(format!("call #{} {} with {} items remaining returned {}, a slice iterator returns {}", step, name, rem, got, exp));
        }
    }
    let rem = or.len();
    match term {
        Terminal::Count => {
            let (g, e) = (it.count(), or.count());
            if g != e {
                return Err(format!("count() with {} items remaining returned {}, slice iterator {}", rem, g, e));
            }
        }
        Terminal::Last => {
            let (g, e) = (it.last(), or.last());
            if g != e {
                return Err(format!("last() with {} items remaining returned {:?}, slice iterator {:?}", rem, g, e));
            }
        }
        Terminal::Collect => {
            let g: Vec<Bit> = it.collect();
            let e: Vec<Bit> = or.collect();
            if g != e {
                return Err(format!("collecting the remaining {} items gives {:?}, slice iterator {:?}", rem, g, e));
            }
        }
        Terminal::Fold => {
            let g = it.fold(Vec::new(), |mut v, b| {
                v.push(b);
                v
            });
            let e = or.fold(Vec::new(), |mut v, b| {
                v.push(b);
                v
            });
            if g != e {
                return Err(format!("fold over the remaining {} items visits {:?}, slice iterator {:?}", rem, g, e));
            }
        }
        Terminal::Rfold => {
            let g = it.rfold(Vec::new(), |mut v, b| {
                v.push(b);
                v
            });
            let e = or.rfold(Vec::new(), |mut v, b| {
                v.push(b);
                v
            });
            if g != e {
                return Err(format!("rfold over the remaining {} items visits {:?}, slice iterator {:?}", rem, g, e));
            }
        }
        Terminal::Adaptors => {
            let (g1, e1) = (it.by_ref().take(5).position(|b| b == Bit::One), or.by_ref().take(5).position(|b| b == Bit::One));
            if g1 != e1 {
                return Err(format!("position over take(5) with {} items remaining gives {:?}, slice iterator {:?}", rem, g1, e1));
            }
            let g: Vec<Bit> = it.skip(2).step_by(3).collect();
            let e: Vec<Bit> = or.skip(2).step_by(3).collect();
            if g != e {
                return Err(format!("skip(2).step_by(3) over the rest gives {:?}, slice iterator {:?}", g, e));
            }
        }
        Terminal::Drain => {
            loop {
                let (g, e) = (it.next(), or.next());
                if g != e {
                    return Err(format!("next() while draining returned {:?}, slice iterator {:?}", g, e));
                }
                if e.is_none() {
                    break;
                }
            }
            for _ in 0..2 {
                if it.next().is_some() || it.next_back().is_some() || it.nth(0).is_some() || it.nth_back(0).is_some() {
                    return Err("iterator yielded an item after it was exhausted".into());
                }
                if it.size_hint() != (0, Some(0)) {
                    return Err(format!("size_hint() after exhaustion is {:?}", it.size_hint()));
                }
            }
        }
    }
    Ok(())
}

fn run<T: Subject>(v: &T, model: &[Bit], case: &C17Case) -> Result<(), String>
where
    for<'a> &'a T: IntoIterator<Item = Bit, IntoIter = bva::BitIterator<'a, T>>,
{
    let or = model.iter().copied();
    match (case.into_iter, case.rev) {
        (false, false) => drive(v.iter(), or, &case.calls, case.term),
        (false, true) => drive(v.iter().rev(), or.rev(), &case.calls, case.term),
        (true, false) => drive(v.into_iter(), or, &case.calls, case.term),
        (true, true) => drive(v.into_iter().rev(), or.rev(), &case.calls, case.term),
    }
}

fn arb_ksel() -> impl Strategy<Value = KSel> {
    prop_oneof![
        6 => (0u8..6).prop_map(KSel::Small),
        1 => Just(KSel::RemMinus1),
        1 => Just(KSel::Rem),
        1 => Just(KSel::RemPlus1),
        1 => Just(KSel::Max),
        1 => Just(KSel::MaxMinus1),
        1 => Just(KSel::MaxMinusRem),
        1 => any::<usize>().prop_map(KSel::Any),
        4 => any::<u16>().prop_map(KSel::Frac),
        2 => (0u8..64, 0u8..12).prop_map(|(e, s)| KSel::Pow2Plus(e, s)),
    ]
}

fn arb_call() -> impl Strategy<Value = Call> {
    prop_oneof![
        3 => Just(Call::Next),
        3 => Just(Call::NextBack),
        3 => arb_ksel().prop_map(Call::Nth),
        3 => arb_ksel().prop_map(Call::NthBack),
        1 => Just(Call::SizeHint),
    ]
}

const TERMS: [Terminal; 7] = [Terminal::Count, Terminal::Last, Terminal::Collect, Terminal::Drain, Terminal::Fold, Terminal::Rfold, Terminal::Adaptors];

impl Property for C17 {
    type Case = C17Case;
    fn id(&self) -> &'static str {
        "C17"
    }
    fn rule(&self) -> String {
        "Cases (stateful): a vector (any zoo type/provenance, length <=200 quick / 600 thorough), an iterator source (iter() | (&v).into_iter(), optionally .rev()), a sequence of 0..25 calls over next, next_back, nth(k), nth_back(k), size_hint with k in {0..5, rem-1, rem, rem+1, usize::MAX, usize::MAX-1, usize::MAX-rem, a fraction of rem, arbitrary} (rem = items remaining at call time), then a terminal count | last | collect | drain-and-keep-calling | fold | rfold | adaptors (position over take(5), then skip(2).step_by(3)). Oracle: std::slice::Iter over the model bits driven by the same calls, every return value compared; the vector passes the battery afterwards (iteration does not modify it). Giant vectors (2^31+69 and 2^32+77 bits, Bvd and heap Bv): nth / nth_back with 2^31+5, 2^32, 2^32+1 (and 2^30+k from the back) on a partially consumed iterator, iter() and (&v).into_iter().rev(), terminals count and last. Long vectors (enumerated, not random): 65..8193 bits on four types, every length 321..2600 (thorough 8300), the 70 400-bit fixed type at 7 lengths and a geometric ladder of lengths around every power of two from 2^14 to 2^21 (thorough 2^24) bits, with jumps to interior positions, 2^16+1 and 2^12+5. Enumerated: all call sequences of length <=4 over a 7-call alphabet for every n<=5, all four sources, on 3 types. Non-trivial: items were consumed from both ends and at least one nth/nth_back with k>0 ran on a partially consumed iterator. Distinct by hash of the case.".into()
    }
    fn random_cases(&self, tier: Tier) -> u64 {
        tier.pick(300000, 9600000)
    }
    fn strategy(&self, tier: Tier) -> BoxedStrategy<C17Case> {
        let nmax = tier.pick(200, 600);
        (arb_operand(tier), any::<u16>(), any::<bool>(), any::<bool>(), vec(arb_call(), 0..25), 0usize..7).prop_map(move |(mut a, f, into_iter, rev, calls, t)| {
            if a.len() > nmax {
                a.bits.0.truncate(frac(f, nmax + 1));
            }
            C17Case { a, into_iter, rev, calls, term: TERMS[t], giant: None }
        }).boxed()
    }
    fn exhaustive_subspaces(&self, _tier: Tier) -> Vec<String> {
        vec!["all call sequences of length <=4 over {next, next_back, nth(0), nth(1), nth_back(1), nth(usize::MAX), nth_back(usize::MAX-rem)} x every n<=5 x 4 iterator sources x 7 terminals on Bvf<u8,1>, Bvd, Bv".into()]
    }
    fn enumerate(&self, tier: Tier, sh: &mut Shard, f: &mut dyn FnMut(C17Case) -> bool) {
        // long vectors: jumps to arbitrary interior positions followed by single steps
        for t in [TID_D, TID_A, 18u8, 10u8, 27u8, 28u8, 13u8, 25u8] {
            let c = fixed_cap(t).unwrap_or(usize::MAX);
            for n in [65usize, 127, 129, 257, 385, 1025, 2560, 4097, 4300, 8193] {
                if !sh.mine() {
                    continue;
                }
                let n = n.min(c);
                let mut sparse = Bits::zeros(n);
                for i in [70usize, 4100, 4250, n - 3] {
                    if i < n {
                        sparse.0[i] = true;
                    }
                }
                for a in [crate::gen::long_values(n)[1].clone(), crate::gen::long_values(n)[3].clone(), crate::gen::long_values(n)[5].clone(), sparse] {
                for f1 in [1000u16, 16384, 32768, 40000, 65000] {
                    for f2 in [1000u16, 30000, 65000] {
                        for src in 0..4usize {
                            let calls = vec![Call::Nth(KSel::Frac(f1)), Call::Next, Call::Next, Call::NthBack(KSel::Frac(f2)), Call::NextBack, Call::Next, Call::Nth(KSel::Small(63)), Call::Next, Call::Nth(KSel::Small(64)), Call::Next, Call::SizeHint];
                            let case = C17Case { a: Operand::canon(t, a.clone()), into_iter: src & 1 == 1, rev: src & 2 == 2, calls, term: TERMS[(f1 as usize + src) % 7], giant: None };
                            if !f(case) {
                                return;
                            }
                        }
                    }
                }
                }
            }
        }
        // the 70 400-bit fixed type and a geometric ladder of lengths up to megabits (Bvd, Bv)
        let mut long: Vec<(Tid, usize)> = HUGE_TYPE_LENS.iter().map(|&n| (TID_HUGE, n)).collect();
        long.extend(ladder_lengths(tier));
        for (t, n) in long {
            if !sh.mine() {
                continue;
            }
            let mut sparse = Bits::zeros(n);
            for i in [70usize, 4100, 65_530, 65_540, n / 2, n - 3] {
                if i < n {
                    sparse.0[i] = true;
                }
            }
            for (j, a) in [dense_value(n), sparse].into_iter().enumerate() {
                for (f1, f2) in [(1000u16, 65000u16), (32768, 30000), (65000, 1000)] {
                    let src = (j + f1 as usize + n) % 4;
                    let calls = vec![Call::Nth(KSel::Frac(f1)), Call::Next, Call::NthBack(KSel::Frac(f2)), Call::NextBack, Call::Next, Call::Nth(KSel::Small(64)), Call::Next, Call::SizeHint, Call::Nth(KSel::Pow2Plus(16, 1)), Call::Next, Call::NthBack(KSel::Pow2Plus(12, 5)), Call::NextBack];
                    if !f(C17Case { a: Operand::canon(t, a.clone()), into_iter: src & 1 == 1, rev: src & 2 == 2, calls, term: TERMS[(f2 as usize + src) % 7], giant: None }) {
                        return;
                    }
                }
            }
        }
        // every terminal on an (almost) untouched iterator over a full-capacity vector of every
        // fixed type: internal iteration (count, last, fold, rfold, adaptors) over all words
        for t in FIXED_TIDS {
            if !sh.mine() {
                continue;
            }
            let c = fixed_cap(t).unwrap();
            for n in [c, c.saturating_sub(1), c.saturating_sub(WORD_BITS[t as usize] / 2)] {
                for a in [dense_value(n), Bits::ones(n)] {
                    for calls in [vec![], vec![Call::Next], vec![Call::NextBack, Call::SizeHint]] {
                        for src in 0..4usize {
                            for term in TERMS {
                                if !f(C17Case { a: Operand::canon(t, a.clone()), into_iter: src & 1 == 1, rev: src & 2 == 2, calls: calls.clone(), term, giant: None }) {
                                    return;
                                }
                            }
                        }
                    }
                }
            }
        }
        // beyond 2^31 and 2^32 bits: arguments and positions that no longer fit 31 / 32 bits
        for len in super::giant::GIANT_LENS {
            for heap_bv in [false, true] {
                if !sh.mine() {
                    continue;
                }
                for (j, ones) in super::giant::giant_lists(len).into_iter().take(2).enumerate() {
                    for (e, s) in [(31u8, 5u8), (32, 0), (32, 1)] {
                        for src in [0usize, 3] {
                            let calls = vec![Call::Next, Call::NextBack, Call::Nth(KSel::Pow2Plus(e, s)), Call::Next, Call::SizeHint, Call::NthBack(KSel::Pow2Plus(e.min(30), s)), Call::NextBack, Call::Nth(KSel::RemMinus1), Call::SizeHint];
                            let term = if (j + src) % 2 == 0 { Terminal::Last } else { Terminal::Count };
                            if !f(C17Case { a: Operand::canon(TID_D, Bits::new()), into_iter: src & 1 == 1, rev: src & 2 == 2, calls, term, giant: Some(super::giant::GiantSpec { len, ones: ones.clone(), heap_bv }) }) {
                                return;
                            }
                        }
                    }
                }
            }
        }
        // every power-of-two-plus-small argument on a partially consumed iterator
        for e in 0u8..64 {
            if !sh.mine() {
                continue;
            }
            for s in [0u8, 1, 5] {
                for back in [false, true] {
                    let k = KSel::Pow2Plus(e, s);
                    let calls = vec![Call::Next, Call::NextBack, if back { Call::NthBack(k) } else { Call::Nth(k) }, Call::Next, Call::SizeHint];
                    for (t, n) in [(1u8, 16usize), (TID_D, 70), (TID_A, 200)] {
                        for rev in [false, true] {
                            if !f(C17Case { a: Operand::canon(t, dense_value(n)), into_iter: back, rev, calls: calls.clone(), term: Terminal::Collect, giant: None }) {
                                return;
                            }
                        }
                    }
                }
            }
        }
        for (t, n) in dense_lengths(tier) {
            if !sh.mine() {
                continue;
            }
            let calls = vec![Call::Nth(KSel::Frac(20000)), Call::Next, Call::NthBack(KSel::Frac(20000)), Call::NextBack, Call::Nth(KSel::Small(63)), Call::Next];
            if !f(C17Case { a: Operand::canon(t, dense_value(n)), into_iter: n % 2 == 0, rev: n % 4 < 2, calls, term: TERMS[n % 7], giant: None }) {
                return;
            }
        }
        let alpha = [Call::Next, Call::NextBack, Call::Nth(KSel::Small(0)), Call::Nth(KSel::Small(1)), Call::NthBack(KSel::Small(1)), Call::Nth(KSel::Max), Call::NthBack(KSel::MaxMinusRem)];
        for t in [0u8, TID_D, TID_A] {
            for n in 0..=5usize {
                for len in 0..=4u32 {
                    for code in 0..7usize.pow(len) {
                        if !sh.mine() {
                            continue;
                        }
                        let mut c = code;
                        let calls: Vec<Call> = (0..len).map(|_| { let x = alpha[c % 7]; c /= 7; x }).collect();
                        let a = realize_val(&ValPat::Alt(true), n, 8);
                        for src in 0..4 {
                            for term in TERMS {
                                let case = C17Case { a: Operand::canon(t, a.clone()), into_iter: src & 1 == 1, rev: src & 2 == 2, calls: calls.clone(), term, giant: None };
                                if !f(case) {
                                    return;
                                }
                            }
                        }
                    }
                }
            }
        }
    }
    fn check(&self, case: &C17Case, st: &mut Stats) -> CheckResult {
        self.check_inner(case, st)
    }
}

impl C17 {
    fn check_inner(&self, case: &C17Case, st: &mut Stats) -> CheckResult {
        if let Some(g) = &case.giant {
            crate::ensure!(g.valid() && matches!(case.term, Terminal::Count | Terminal::Last), "bad-case", "giant iterator case outside its domain");
            if !super::giant::giant_available(g.len) {
                st.class("giant vector skipped: memory not available");
                st.note(case, false);
                return Ok(());
            }
            fn go<T: Subject>(g: &super::giant::GiantSpec, case: &C17Case) -> Result<(), String>
            where
                for<'a> &'a T: IntoIterator<Item = Bit, IntoIter = bva::BitIterator<'a, T>>,
            {
                let v: T = g.build();
                // the oracle: a range mapped through the sparse description (nth, nth_back, count
                // and last of a mapped range cost O(1))
                let or = (0..g.len).map(|i| bit(g.bit(i)));
                match (case.into_iter, case.rev) {
                    (false, false) => drive(v.iter(), or, &case.calls, case.term),
                    (false, true) => drive(v.iter().rev(), or.rev(), &case.calls, case.term),
                    (true, false) => drive((&v).into_iter(), or, &case.calls, case.term),
                    (true, true) => drive((&v).into_iter().rev(), or.rev(), &case.calls, case.term),
                }
            }
            match catch(|| if g.heap_bv { go::<Bv>(g, case) } else { go::<Bvd>(g, case) }) {
                Err(p) => fail!("iter:giant/panic", "iterating a {}-bit vector with ones at {:?}, calls {:?} panicked: {}", g.len, g.ones, case.calls, p),
                Ok(Err(m)) => fail!("iter:giant/diverged", "a {}-bit vector with ones at {:?}, calls {:?}: {}", g.len, g.ones, case.calls, m),
                Ok(Ok(())) => {}
            }
            st.class("giant vector (> 2^31 bits)");
            st.note(case, true);
            return Ok(());
        }
        let a = &case.a;
        let what = format!("iter:{}:{}{}", kind_of(a.ty), if case.into_iter { "into_iter" } else { "iter" }, if case.rev { ".rev" } else { "" });
        let za = build_checked(a, "subject")?;
        let model: Vec<Bit> = a.bits.0.iter().map(|&b| bit(b)).collect();
        let r = catch(|| z_match!(&za, v => run(v, &model, case)));
        match r {
            Err(p) => fail!(format!("{}/panic", what), "iterating {} with calls {:?} panicked: {}", a.describe(), case.calls, p),
            Ok(Err(m)) => fail!(format!("{}/diverged", what), "{} with calls {:?}: {}", a.describe(), case.calls, m),
            Ok(Ok(())) => {}
        }
        battery_z(&za, &a.bits, Strength::Light, &format!("{}/after", what)).map_err(|mut v| {
            v.msg = format!("iterating modified {}: {}", a.describe(), v.msg);
            v
        })?;
        // classification by simulation on the model
        let mut lo = 0usize;
        let mut hi = a.len();
        let (mut front, mut back, mut nth_partial, mut huge) = (false, false, false, false);
        for c in &case.calls {
            let rem = hi - lo;
            match c {
                Call::Next => { if rem > 0 { lo += 1; front = true; } }
                Call::NextBack => { if rem > 0 { hi -= 1; back = true; } }
                Call::Nth(k) | Call::NthBack(k) => {
                    let kk = resolve(*k, rem);
                    if kk > usize::MAX / 2 { huge = true; }
                    if kk > 0 && (front || back) && rem > 0 { nth_partial = true; }
                    let is_front = matches!(c, Call::Nth(_));
                    if kk < rem {
                        if is_front { lo += kk + 1; front = true; } else { hi -= kk + 1; back = true; }
                    } else {
                        if is_front { lo = hi; } else { hi = lo; }
                    }
                }
                Call::SizeHint => {}
            }
        }
        st.class(if case.rev { "reversed" } else { "forward" });
        st.class(if case.into_iter { "into_iter" } else { "iter" });
        st.class_if(huge, "huge nth argument");
        st.class_if(front && back, "consumed from both ends");
        st.class(&format!("terminal:{:?}", case.term));
        st.note(case, front && back && nth_partial);
        Ok(())
    }
}
