//! C19 - fixed-capacity overflow and bad arguments are signalled, never silently absorbed.

use super::common::*;
use crate::engine::*;
use crate::gen::*;
use crate::spec::*;
use crate::stats::Stats;
use crate::{ensure, fail};
use proptest::prelude::*;
use serde::{Deserialize, Serialize};
use vcore::*;

#[derive(Clone, Copy, Debug, Hash, PartialEq, Eq, Serialize, Deserialize)]
pub enum OverOp {
    // constructors: must panic
    Zeros,
    Ones,
    Repeat,
    // fallible constructors / conversions: must return Err
    FromBytes,
    FromBinary,
    FromHex,
    Read,
    TryFromNat,
    TryFromSlice,
    TryFromVec,
    // growth operations on a valid vector: must panic
    Push,
    Resize,
    SignExtend,
    /// zeros / resize / read with a length near usize::MAX (must panic / panic / return Err)
    ZerosHuge,
    ResizeHuge,
    ReadHuge,
    Append,
    Prepend,
    Insert,
    Extend,
    Collect,
}

pub const OVER_OPS: [OverOp; 21] = [
    OverOp::Zeros, OverOp::Ones, OverOp::Repeat, OverOp::FromBytes, OverOp::FromBinary, OverOp::FromHex, OverOp::Read, OverOp::TryFromNat,
    OverOp::TryFromSlice, OverOp::TryFromVec, OverOp::Push, OverOp::Resize, OverOp::SignExtend, OverOp::Append, OverOp::Prepend, OverOp::Insert,
    OverOp::Extend, OverOp::Collect, OverOp::ZerosHuge, OverOp::ResizeHuge, OverOp::ReadHuge,
];

#[derive(Clone, Copy, Debug, Hash, PartialEq, Eq, Serialize, Deserialize)]
pub enum BadIdx {
    Get,
    Set,
    CopyRangeEnd,
    CopyRangeStart,
    SplitOff,
}

#[derive(Clone, Debug, Hash, Serialize, Deserialize)]
pub enum C19Case {
    /// A request that exceeds the capacity of fixed type `ty` by `d` bits, starting from a valid
    /// vector of length capacity - `below`.
    Over { ty: Tid, below: usize, d: usize, op: OverOp, fill: bool, other: Tid, at: u16 },
    /// Out-of-range index (checked only in builds with debug assertions), any zoo type.
    BadIndex { a: Operand, which: BadIdx, beyond: usize },
}

pub struct C19;

/// Outcome of a probe: how the call ended.
enum Ended {
    /// panicked, but the vector it was operating on was left with len > capacity: (len, capacity)
    PanickedOverlong(usize, usize),
    Panicked,
    Errored,
    /// returned normally: (len, capacity) of what came back
    Returned(usize, usize),
    /// the probe does not apply to this configuration
    Skip,
}

fn probe<T: Subject>(below: usize, d: usize, op: OverOp, fill: bool, other: Tid, at: u16) -> Ended {
    let c = fixed_cap(T::TID).unwrap();
    // below in 0..=3: start at capacity - below; below == 4: start from an EMPTY vector
    let start = if below >= 4 { 0 } else { c - below.min(c) };
    let target = c + d; // requested total length
    let grow = target - start; // bits to add
    let b = bit(fill);
    let val = |n: usize| realize_val(&ValPat::Alt(fill), n, 8);
    let lc = |v: &T| Ended::Returned(v.len(), BitVector::capacity(v));
    // in-place growth of a surviving vector: its state is inspected even if the call panics
    if matches!(op, OverOp::Push | OverOp::Resize | OverOp::SignExtend | OverOp::Extend | OverOp::ResizeHuge) {
        if op == OverOp::Push && below != 0 {
            return Ended::Skip;
        }
        let huge = [usize::MAX, usize::MAX - 6, usize::MAX - 7, usize::MAX / 2 + 1, 1usize << 40][d % 5];
        let mut v: T = build_canon(&val(if op == OverOp::Push { c } else { start }));
        let r = catch(std::panic::AssertUnwindSafe(|| match op {
            OverOp::Push => v.push(b),
            OverOp::Resize => v.resize(target, b),
            OverOp::ResizeHuge => v.resize(huge, b),
            OverOp::SignExtend => v.sign_extend(target),
            _ => {
                let z: Z = tid_match!(T::TID, U => { let mut u = U::from_z(v.clone().wrap()).unwrap(); let r = catch(std::panic::AssertUnwindSafe(|| u.extend((0..grow).map(|_| b)))); if r.is_err() { std::panic::resume_unwind(Box::new((u.len(), BitVector::capacity(&u)))) } u.wrap() });
                v = T::from_z(z).unwrap();
            }
        }));
        return match r {
            Ok(()) => lc(&v),
            Err(_) if v.len() > BitVector::capacity(&v) => Ended::PanickedOverlong(v.len(), BitVector::capacity(&v)),
            Err(_) => Ended::Panicked,
        };
    }
    let r: Result<Ended, String> = catch(|| match op {
        OverOp::ZerosHuge => lc(&T::zeros([usize::MAX, usize::MAX - 6, usize::MAX / 2 + 1, 1usize << 40][d % 4])),
        OverOp::ReadHuge => {
            let bytes = vec![0xffu8; 64];
            let mut rd: &[u8] = &bytes;
            match T::read(&mut rd, [usize::MAX, usize::MAX - 6, usize::MAX - 7, usize::MAX - 8, usize::MAX / 2 + 1, 1usize << 40][d % 6], if at % 2 == 0 { Endianness::Little } else { Endianness::Big }) {
                Ok(v) => lc(&v),
                Err(_) => Ended::Errored,
            }
        }
        OverOp::ResizeHuge => unreachable!(),
        OverOp::Zeros => lc(&T::zeros(target)),
        OverOp::Ones => lc(&T::ones(target)),
        OverOp::Repeat => lc(&T::repeat(b, target)),
        OverOp::FromBytes => {
            let nb = (target + 7) / 8;
            match T::from_bytes(vec![if fill { 0xff } else { 0x5a }; nb], if at % 2 == 0 { Endianness::Little } else { Endianness::Big }) {
                Ok(v) => lc(&v),
                Err(_) => Ended::Errored,
            }
        }
        OverOp::FromBinary => match T::from_binary(val(target).msb_string()) {
            Ok(v) => lc(&v),
            Err(_) => Ended::Errored,
        },
        OverOp::FromHex => {
            let nd = (target + 3) / 4;
            match T::from_hex(if fill { "f" } else { "7" }.repeat(nd)) {
                Ok(v) => lc(&v),
                Err(_) => Ended::Errored,
            }
        }
        OverOp::Read => {
            let nb = (target + 7) / 8;
            let bytes = vec![if fill { 0xffu8 } else { 0x33 }; nb + 1];
            let mut rd: &[u8] = &bytes;
            match T::read(&mut rd, target, if at % 2 == 0 { Endianness::Little } else { Endianness::Big }) {
                Ok(v) => lc(&v),
                Err(_) => Ended::Errored,
            }
        }
        OverOp::TryFromNat => {
            // a value with exactly `target` significant bits, in the narrowest type holding it
            if target > 128 {
                return Ended::Skip;
            }
            let x = (1u128 << (target - 1)) | (fill as u128);
            let nty = NAT_TYS.iter().copied().filter(|t| *t != NatTy::Usize || at % 2 == 0).find(|t| t.bits() >= target).unwrap_or(NatTy::U128);
            match T::from_nat(Nat::new(nty, x), at % 3 == 0) {
                Ok(v) => lc(&v),
                Err(_) => Ended::Errored,
            }
        }
        OverOp::TryFromSlice => {
            let nty = NAT_TYS[(at as usize) % 6];
            let count = (target + nty.bits() - 1) / nty.bits();
            match T::from_slice(nty, &vec![if fill { u128::MAX } else { 1 }; count]) {
                Ok(v) => lc(&v),
                Err(_) => Ended::Errored,
            }
        }
        OverOp::TryFromVec => {
            // a source type able to hold `target` bits (fall back to the dynamic type)
            let other = if fixed_cap(other).map_or(false, |oc| oc < target) { if at % 2 == 0 { TID_D } else { TID_A } } else { other };
            // half of the sources hold a small value: only the LENGTH exceeds the capacity
            let src = build_canon_z(other, &if fill { val(target) } else { Bits::from_u128(1, target) });
            match tab_conv::convert(&src, T::TID, at % 2 == 1) {
                None => Ended::Skip,
                Some(Ok(z)) => Ended::Returned(z.len(), z.capacity()),
                Some(Err(_)) => Ended::Errored,
            }
        }
        OverOp::Push => {
            if below != 0 {
                return Ended::Skip;
            }
            let mut v: T = build_canon(&val(c));
            v.push(b);
            lc(&v)
        }
        OverOp::Resize => {
            let mut v: T = build_canon(&val(start));
            v.resize(target, b);
            lc(&v)
        }
        OverOp::SignExtend => {
            let mut v: T = build_canon(&val(start));
            v.sign_extend(target);
            lc(&v)
        }
        OverOp::Append | OverOp::Prepend | OverOp::Insert => {
            // an operand type able to hold `grow` bits (fall back to the unbounded types)
            let other = if fixed_cap(other).map_or(false, |oc| oc < grow) { if at % 2 == 0 { TID_D } else { TID_A } } else { other };
            let mut v: T = build_canon(&val(start));
            let o = build_canon_z(other, &val(grow));
            z_match!(&o, x => match op {
                OverOp::Append => v.append(x),
                OverOp::Prepend => v.prepend(x),
                _ => v.insert(frac(at, start + 1), x),
            });
            lc(&v)
        }
        OverOp::Extend => {
            let mut v: T = build_canon(&val(start));
            let z: Z = tid_match!(T::TID, U => { let mut u = U::from_z(v.clone().wrap()).unwrap(); if at % 2 == 0 { u.extend((0..grow).map(|_| b)) } else { u.extend((0..grow).filter(|_| true).map(|_| b)) }; u.wrap() });
            v = T::from_z(z).unwrap();
            lc(&v)
        }
        OverOp::Collect => {
            // the iterator's size hint is exact, a loose lower bound (filter), or absent (from_fn)
            let z: Z = tid_match!(T::TID, U => match at % 3 {
                0 => (0..target).map(|_| b).collect::<U>().wrap(),
                1 => (0..target).filter(|_| true).map(|_| b).collect::<U>().wrap(),
                _ => { let mut k = 0usize; std::iter::from_fn(move || { k += 1; if k <= target { Some(b) } else { None } }).collect::<U>().wrap() }
            });
            Ended::Returned(z.len(), z.capacity())
        }
    });
    match r {
        Ok(e) => e,
        Err(_) => Ended::Panicked,
    }
}

impl Property for C19 {
    type Case = C19Case;
    fn id(&self) -> &'static str {
        "C19"
    }
    fn rule(&self) -> String {
        "Cases: for each of the 18 fixed types, a valid vector of length C-below (below in 0..=3) or an empty one and one request exceeding the capacity by d in 1..70 bits: zeros/ones/repeat(C+d) must panic; from_bytes/from_binary/from_hex/read/TryFrom<integer | slice | vector of every other type> must return Err; push, resize, sign_extend, append/prepend/insert (operand of any zoo type), extend and collect (from iterators whose size hint is exact, a loose lower bound, or absent) must panic. Returning normally is the violation (reported with the resulting len/capacity); so is a panic that leaves the vector it was applied to with len > capacity (the vector is inspected after the caught panic). zeros/resize/read with lengths near usize::MAX are included. Both build profiles run every case. In the profile with debug assertions only: get/set(i>=len), copy_range with start or end > len and split_off(i>len) must panic, on all 20 types. Enumerated: the complete product (type x below x d x operation x fill bit) with the operand type rotating; random adds operand types/positions. Non-trivial: every over-capacity request from a valid state is; distinct by hash of the case (type, operation, start length, d, operand type).".into()
    }
    fn random_cases(&self, tier: Tier) -> u64 {
        tier.pick(150000, 4800000)
    }
    fn strategy(&self, tier: Tier) -> BoxedStrategy<C19Case> {
        let over = ((0usize..27).prop_map(|i| FIXED_TIDS[i]), 0usize..5, 1usize..70, 0usize..21, any::<bool>(), 0..NT, any::<u16>()).prop_map(|(ty, below, d, o, fill, other, at)| C19Case::Over { ty, below, d, op: OVER_OPS[o], fill, other, at });
        let bad = (arb_operand(tier), 0usize..5, prop_oneof![Just(0usize), Just(1), 0usize..200]).prop_map(|(a, w, beyond)| C19Case::BadIndex { a, which: [BadIdx::Get, BadIdx::Set, BadIdx::CopyRangeEnd, BadIdx::CopyRangeStart, BadIdx::SplitOff][w], beyond });
        prop_oneof![5 => over, 1 => bad].boxed()
    }
    fn exhaustive_subspaces(&self, _tier: Tier) -> Vec<String> {
        vec!["complete product: 18 fixed types x start length {C-3..C, 0} x d in 1..70 x 18 over-capacity operations x fill bit (operand type rotates over the 20 zoo types)".into()]
    }
    fn enumerate(&self, _tier: Tier, sh: &mut Shard, f: &mut dyn FnMut(C19Case) -> bool) {
        let mut rot: u32 = 0;
        for ty in FIXED_TIDS {
            for below in 0..5usize {
                for d in 1..70usize {
                    if !sh.mine() {
                        continue;
                    }
                    for op in OVER_OPS {
                        for fill in [false, true] {
                            rot = rot.wrapping_add(1);
                            let c = C19Case::Over { ty, below, d, op, fill, other: (rot % NT as u32) as Tid, at: (rot.wrapping_mul(7919) % 65536) as u16 };
                            if !f(c) {
                                return;
                            }
                        }
                    }
                }
            }
        }
        for t in ROUTINE_TIDS {
            if !sh.mine() {
                continue;
            }
            let c = fixed_cap(t).unwrap_or(200);
            for n in [0, 1, c / 2, c.saturating_sub(1), c] {
                for which in [BadIdx::Get, BadIdx::Set, BadIdx::CopyRangeEnd, BadIdx::CopyRangeStart, BadIdx::SplitOff] {
                    for beyond in [0usize, 1, 7, 64] {
                        if !f(C19Case::BadIndex { a: Operand::canon(t, realize_val(&ValPat::Alt(true), n, 8)), which, beyond }) {
                            return;
                        }
                    }
                }
            }
        }
    }
    fn check(&self, case: &C19Case, st: &mut Stats) -> CheckResult {
        match case {
            C19Case::Over { ty, below, d, op, fill, other, at } => {
                ensure!(is_fixed(*ty) && *d >= 1, "bad-case", "C19 over-capacity case needs a fixed type and d>=1");
                let what = format!("over-capacity:{:?}", op);
                let ended = tid_match!(*ty, T => probe::<T>(*below, *d, *op, *fill, *other, *at));
                let c = fixed_cap(*ty).unwrap();
                let must_err = matches!(op, OverOp::FromBytes | OverOp::FromBinary | OverOp::FromHex | OverOp::Read | OverOp::ReadHuge | OverOp::TryFromNat | OverOp::TryFromSlice | OverOp::TryFromVec);
                match ended {
                    Ended::Skip => {
                        st.class("not applicable (operand type too small / value too wide)");
                        st.note(case, false);
                        return Ok(());
                    }
                    Ended::Returned(l, cap) => fail!(format!("{}/returned", what), "{}: {:?} requesting {} bits (capacity {}, start length {}) returned normally with len()={} capacity()={}", NAMES[*ty as usize], op, c + d, c, if *below >= 4 { 0 } else { c - below.min(&c) }, l, cap),
                    Ended::PanickedOverlong(l, cap) => fail!(format!("{}/overlong-after-panic", what), "{}: {:?} beyond capacity panicked, but left the vector it was applied to with len()={} > capacity()={}", NAMES[*ty as usize], op, l, cap),
                    Ended::Panicked => ensure!(!must_err, format!("{}/panicked-instead-of-err", what), "{}: {:?} beyond capacity panicked although it must return an error", NAMES[*ty as usize], op),
                    Ended::Errored => ensure!(must_err, "harness", "growth operation returned an error value?"),
                }
                st.class(&format!("{:?}", op));
                st.class_if((c + d) / WORD_BITS[*ty as usize] >= NWORDS[*ty as usize] + 1, "target indexes past the storage array");
                st.class_if((c + d - 1) / WORD_BITS[*ty as usize] < NWORDS[*ty as usize] + 1, "target within one word past the array");
                st.note(case, true);
                Ok(())
            }
            C19Case::BadIndex { a, which, beyond } => {
                if !cfg!(debug_assertions) {
                    // unspecified without debug assertions: the call is not made
                    st.class("bad index (skipped: no debug assertions)");
                    st.note(case, false);
                    return Ok(());
                }
                let what = format!("bad-index:{:?}:{}", which, kind_of(a.ty));
                let za = build_checked(a, "subject")?;
                let n = a.len();
                let r = catch(|| {
                    z_match!(za.clone(), v => {
                        let mut v = v;
                        match which {
                            BadIdx::Get => { let _ = v.get(n + beyond); }
                            BadIdx::Set => v.set(n + beyond, Bit::One),
                            BadIdx::CopyRangeEnd => { let _ = v.copy_range(0..n + 1 + beyond); }
                            BadIdx::CopyRangeStart => { let _ = v.copy_range(n + 1 + beyond..n + 1 + beyond); }
                            BadIdx::SplitOff => { let _ = v.split_off(n + 1 + beyond); }
                        }
                    })
                });
                ensure!(r.is_err(), format!("{}/returned", what), "{}: {:?} with an index {} past the end returned normally in a build with debug assertions", a.describe(), which, beyond + 1);
                st.class(&format!("bad index {:?}", which));
                st.note(case, true);
                Ok(())
            }
        }
    }
    fn assumptions(&self) -> Vec<String> {
        vec!["the state of a vector after a caught panic is not inspected".into(), "out-of-range indices are only probed in the profile with debug assertions (documented behaviour); in the release profile those calls are not made".into()]
    }
}
