//! C13 - byte and stream serialisation is exact for both endiannesses.

use super::common::*;
use crate::battery::battery_z;
use crate::engine::*;
use crate::gen::*;
use crate::spec::*;
use crate::stats::Stats;
use crate::{ensure, fail};
use proptest::collection::vec;
use proptest::prelude::*;
use serde::{Deserialize, Serialize};
use std::io::Read;
use vcore::*;

#[derive(Clone, Debug, Hash, Serialize, Deserialize)]
pub enum C13Case {
    /// to_vec / write of a subject, both endiannesses, and the two round trips
    Out { a: Operand },
    /// from_bytes(bytes, endianness)
    FromBytes { ty: Tid, bytes: Vec<u8>, big: bool },
    /// read(reader over `bytes`, len, endianness); `chunked`: the reader hands out one byte per call
    Read { ty: Tid, bytes: Vec<u8>, len: usize, big: bool, chunked: bool },
}

pub struct C13;

/// A reader that returns at most one byte per `read` call and counts what it handed out.
struct OneByte<'a> {
    data: &'a [u8],
    pos: usize,
}
impl Read for OneByte<'_> {
    fn read(&mut self, buf: &mut [u8]) -> std::io::Result<usize> {
        if buf.is_empty() || self.pos >= self.data.len() {
            return Ok(0);
        }
        buf[0] = self.data[self.pos];
        self.pos += 1;
        Ok(1)
    }
}

fn endian(big: bool) -> Endianness {
    if big {
        Endianness::Big
    } else {
        Endianness::Little
    }
}

/// bits of a byte string interpreted with the given endianness (bit 0 = LSB of the value)
fn bytes_value(bytes: &[u8], big: bool) -> Bits {
    if big {
        let mut v = bytes.to_vec();
        v.reverse();
        Bits::from_bytes_le(&v)
    } else {
        Bits::from_bytes_le(bytes)
    }
}

impl Property for C13 {
    type Case = C13Case;
    fn id(&self) -> &'static str {
        "C13"
    }
    fn rule(&self) -> String {
        "Cases: (a) subject of any type/length/provenance -> to_vec and write in both endiannesses compared with model bytes (exactly ceil(n/8) bytes, surplus bits zero, Big = reversed Little) and the round trips read(write(v))==v, from_bytes(to_vec(v)) == v zero-extended to whole bytes; (b) arbitrary byte strings of 0..ceil(C/8)+2 (<=48) bytes -> from_bytes: length 8*|bytes| and exact bits, or NotEnoughCapacity iff 8*|bytes|>C; (c) read(bytes, len, endianness, reader chunking all-at-once | one byte per call) with surplus high bits SET: Err (never a panic) when the input is short or len>C, otherwise exactly len bits with the surplus discarded, exactly ceil(len/8) bytes consumed, battery clean. Enumerated: every length 0..=min(C,320) x both endiannesses x two byte patterns (0xFF.., mixed) x 20 types for (a) and (c), every byte count 0..=C/8+2 for (b); plus (a) and (c) on the 70 400-bit fixed type at 10 lengths around its thresholds and capacity, and, for Bvd and Bv, on a geometric ladder of lengths around every power of two from 2^14 to 2^21 (thorough: 2^24) bits with a 10-byte trailer behind the record. Non-trivial: len%8 != 0 with a surplus bit set in the top byte, or the vector spans several storage words. Distinct by hash of the case.".into()
    }
    fn random_cases(&self, tier: Tier) -> u64 {
        tier.pick(200000, 6400000)
    }
    fn strategy(&self, tier: Tier) -> BoxedStrategy<C13Case> {
        let lmax = lmax_dyn(tier);
        let out = arb_operand(tier).prop_map(|a| C13Case::Out { a });
        let fb = (arb_tid(), vec(any::<u8>(), 0..50), any::<u16>(), any::<bool>()).prop_map(move |(ty, mut bytes, f, big)| {
            let maxb = fixed_cap(ty).map_or(48, |c| c / 8 + 2).min(bytes.len());
            bytes.truncate(frac(f, maxb + 1));
            C13Case::FromBytes { ty, bytes, big }
        });
        let rd = (arb_tid(), arb_len_sel(), vec(any::<u8>(), 0..160), 0u8..8, any::<bool>(), any::<bool>(), any::<bool>()).prop_map(move |(ty, ls, mut bytes, short, big, chunked, ones)| {
            // requested length up to capacity + 9 for fixed types (to exercise the capacity error)
            let mut len = realize_len(&ls, ty, lmax);
            if let Some(c) = fixed_cap(ty) {
                if short == 7 {
                    len = c + 1 + (len % 9);
                }
            }
            let need = (len + 7) / 8;
            if ones {
                bytes.iter_mut().for_each(|b| *b = 0xff);
            }
            // 1 in 8: too few bytes; otherwise enough plus some trailing bytes that must stay unread
            let have = if short == 0 && need > 0 { need - 1 - (bytes.len() % need.max(1)).min(need - 1) } else { need + (bytes.len() % 4) };
            bytes.resize(have, 0xA5);
            C13Case::Read { ty, bytes, len, big, chunked }
        });
        prop_oneof![3 => out, 2 => fb, 5 => rd].boxed()
    }
    fn exhaustive_subspaces(&self, _tier: Tier) -> Vec<String> {
        vec![
            "read: every requested length 0..=min(capacity,320) (+ capacity+1..capacity+9 for fixed types) x both endiannesses x {all-0xFF, mixed} input x both chunkings x 20 types; plus one-byte-short input at every length".into(),
            "to_vec/write/round-trips: every length 0..=min(capacity,320) x three value classes x 20 types".into(),
            "from_bytes: every byte count 0..=capacity/8+2 (<=42) x both endiannesses x two patterns x 20 types".into(),
        ]
    }
    fn enumerate(&self, tier: Tier, sh: &mut Shard, f: &mut dyn FnMut(C13Case) -> bool) {
        for ty in ROUTINE_TIDS {
            let c = fixed_cap(ty).unwrap_or(320);
            let top = if fixed_cap(ty).is_some() { c + 9 } else { c };
            for len in 0..=top {
                if !sh.mine() {
                    continue;
                }
                let need = (len + 7) / 8;
                for big in [false, true] {
                    for pat in 0..2 {
                        let bytes: Vec<u8> = (0..need + 2).map(|i| if pat == 0 { 0xff } else { (i as u8).wrapping_mul(37).wrapping_add(0x81) | 0x80 }).collect();
                        for chunked in [false, true] {
                            if !f(C13Case::Read { ty, bytes: bytes.clone(), len, big, chunked }) {
                                return;
                            }
                        }
                        if need > 0 {
                            if !f(C13Case::Read { ty, bytes: bytes[..need - 1].to_vec(), len, big, chunked: pat == 0 }) {
                                return;
                            }
                        }
                    }
                }
                if len <= c {
                    for a in three_values(len) {
                        if !f(C13Case::Out { a: Operand::canon(ty, a) }) {
                            return;
                        }
                    }
                }
            }
        }
        for (ty, len) in dense_lengths(tier) {
            if !sh.mine() {
                continue;
            }
            let need = (len + 7) / 8;
            let bytes: Vec<u8> = (0..need + 1).map(|i| (i as u8).wrapping_mul(37).wrapping_add(0x81) | 0x80).collect();
            for big in [false, true] {
                if !f(C13Case::Read { ty, bytes: bytes.clone(), len, big, chunked: len % 7 == 0 }) {
                    return;
                }
            }
            if !f(C13Case::Out { a: Operand::canon(ty, dense_value(len)) }) {
                return;
            }
        }
        // very long records (the 70 400-bit fixed type, and a geometric ladder on the unbounded
        // types): a trailer of 10 bytes must stay unread, the surplus bits are set
        let mut long: Vec<(Tid, usize)> = HUGE_TYPE_LENS.iter().map(|&n| (TID_HUGE, n)).collect();
        long.extend([(TID_HUGE, 70_393), (TID_HUGE, 70_401), (TID_HUGE, 70_464)]);
        long.extend(ladder_lengths(tier));
        for (ty, len) in long {
            if !sh.mine() {
                continue;
            }
            let need = (len + 7) / 8;
            let bytes: Vec<u8> = (0..need + 10).map(|i| (i as u8).wrapping_mul(37).wrapping_add(0x81 ^ (i >> 8) as u8) | 0x80).collect();
            for big in [false, true] {
                if !f(C13Case::Read { ty, bytes: bytes.clone(), len, big, chunked: false }) {
                    return;
                }
            }
            if len <= fixed_cap(ty).unwrap_or(usize::MAX) && !f(C13Case::Out { a: Operand::canon(ty, dense_value(len)) }) {
                return;
            }
        }
        // from_bytes around the capacity of the 70 400-bit type
        for nb in [8191usize, 8192, 8193, 8799, 8800, 8801] {
            if !sh.mine() {
                continue;
            }
            for big in [false, true] {
                let bytes: Vec<u8> = (0..nb).map(|i| (i as u8).wrapping_mul(101).wrapping_add(0x1d) | 1).collect();
                if !f(C13Case::FromBytes { ty: TID_HUGE, bytes, big }) {
                    return;
                }
            }
        }
        for ty in ROUTINE_TIDS {
            if !sh.mine() {
                continue;
            }
            let maxb = fixed_cap(ty).map_or(42, |c| c / 8 + 2);
            for nb in 0..=maxb {
                for big in [false, true] {
                    for pat in 0..2 {
                        let bytes: Vec<u8> = (0..nb).map(|i| if pat == 0 { 0xff } else { (i as u8).wrapping_mul(101).wrapping_add(0x1d) }).collect();
                        if !f(C13Case::FromBytes { ty, bytes, big }) {
                            return;
                        }
                    }
                }
            }
        }
    }
    fn check(&self, case: &C13Case, st: &mut Stats) -> CheckResult {
        match case {
            C13Case::Out { a } => {
                let what = format!("bytes-out:{}", kind_of(a.ty));
                let za = build_checked(a, "subject")?;
                let n = a.len();
                let le = a.bits.to_bytes_le();
                let mut be = le.clone();
                be.reverse();
                let r = catch(|| {
                    z_match!(&za, v => {
                        let mut wl: Vec<u8> = Vec::new();
                        let mut wb: Vec<u8> = Vec::new();
                        let r1 = v.write(&mut wl, Endianness::Little).is_ok();
                        let r2 = v.write(&mut wb, Endianness::Big).is_ok();
                        (v.to_vec(Endianness::Little), v.to_vec(Endianness::Big), wl, wb, r1 && r2)
                    })
                });
                let (tl, tb, wl, wb, wok) = match r {
                    Ok(x) => x,
                    Err(p) => fail!(format!("{}/panic", what), "to_vec/write of {} panicked: {}", a.describe(), p),
                };
                ensure!(wok, format!("{}/write-err", what), "write into a Vec returned an error");
                ensure!(tl == le, format!("{}/to_vec-little", what), "{}.to_vec(Little) = {:02x?}, model {:02x?} (raw {})", a.describe(), tl, le, za.raw());
                ensure!(tb == be, format!("{}/to_vec-big", what), "{}.to_vec(Big) = {:02x?}, model {:02x?}", a.describe(), tb, be);
                ensure!(wl == le && wb == be, format!("{}/write", what), "{}: write() output differs from the model bytes: {:02x?} / {:02x?}", a.describe(), wl, wb);
                // round trips through the same type
                for big in [false, true] {
                    let src = if big { &be } else { &le };
                    let rr = catch(|| {
                        tid_match!(a.ty, T => {
                            let mut rd: &[u8] = src;
                            let v = T::read(&mut rd, n, endian(big)).map(|v| v.wrap());
                            let fb = T::from_bytes(src, endian(big)).map(|v| v.wrap());
                            (v, fb)
                        })
                    });
                    let (rv, fb) = match rr {
                        Ok(x) => x,
                        Err(p) => fail!(format!("{}/roundtrip-panic", what), "re-reading the bytes of {} panicked: {}", a.describe(), p),
                    };
                    match rv {
                        Ok(z) => battery_z(&z, &a.bits, strength(st), &format!("{}/read(write)", what)).map_err(|mut v| {
                            v.msg = format!("read(write({})) ({}): {}", a.describe(), if big { "Big" } else { "Little" }, v.msg);
                            v
                        })?,
                        Err(e) => fail!(format!("{}/read(write)-err", what), "read(write({})) failed: {}", a.describe(), e),
                    }
                    match fb {
                        Ok(z) => battery_z(&z, &a.bits.zext(le.len() * 8), strength(st), &format!("{}/from_bytes(to_vec)", what)).map_err(|mut v| {
                            v.msg = format!("from_bytes(to_vec({})) ({}): {}", a.describe(), if big { "Big" } else { "Little" }, v.msg);
                            v
                        })?,
                        Err(e) => fail!(format!("{}/from_bytes(to_vec)-err", what), "from_bytes(to_vec({})) failed: {:?}", a.describe(), e),
                    }
                }
                st.class("to_vec/write");
                st.class(a.prov.class());
                st.note(case, n % 8 != 0 || n > WORD_BITS[a.ty as usize]);
                Ok(())
            }
            C13Case::FromBytes { ty, bytes, big } => {
                let what = format!("from_bytes:{}", kind_of(*ty));
                let r = match catch(|| tid_match!(*ty, T => T::from_bytes(bytes, endian(*big)).map(|v| v.wrap()))) {
                    Ok(r) => r,
                    Err(p) => fail!(format!("{}/panic", what), "{}::from_bytes({} bytes) panicked: {}", NAMES[*ty as usize], bytes.len(), p),
                };
                let fits = fixed_cap(*ty).map_or(true, |c| bytes.len() * 8 <= c);
                match r {
                    Ok(z) => {
                        ensure!(fits, format!("{}/accepted-overflow", what), "from_bytes of {} bytes succeeded beyond capacity", bytes.len());
                        battery_z(&z, &bytes_value(bytes, *big), strength(st), &what).map_err(|mut v| {
                            v.msg = format!("{}::from_bytes({:02x?}, {}): {}", NAMES[*ty as usize], bytes, if *big { "Big" } else { "Little" }, v.msg);
                            v
                        })?;
                    }
                    Err(e) => ensure!(!fits && e == ConvertionError::NotEnoughCapacity, format!("{}/rejected", what), "from_bytes of {} bytes failed with {:?}", bytes.len(), e),
                }
                st.class("from_bytes");
                st.class_if(!fits, "from_bytes beyond capacity");
                st.note(case, bytes.len() * 8 > WORD_BITS[*ty as usize] || (bytes.len() % (WORD_BITS[*ty as usize] / 8).max(1) != 0 && !bytes.is_empty()));
                Ok(())
            }
            C13Case::Read { ty, bytes, len, big, chunked } => {
                let what = format!("read:{}", kind_of(*ty));
                let need = (*len + 7) / 8;
                let r = catch(|| {
                    tid_match!(*ty, T => {
                        if *chunked {
                            let mut rd = OneByte { data: bytes, pos: 0 };
                            let v = T::read(&mut rd, *len, endian(*big)).map(|v| v.wrap());
                            (v, rd.pos)
                        } else {
                            let mut rd: &[u8] = bytes;
                            let v = T::read(&mut rd, *len, endian(*big)).map(|v| v.wrap());
                            (v, bytes.len() - rd.len())
                        }
                    })
                });
                let (r, consumed) = match r {
                    Ok(x) => x,
                    Err(p) => fail!(format!("{}/panic", what), "{}::read({} bytes available, len {}) panicked: {}", NAMES[*ty as usize], bytes.len(), len, p),
                };
                let too_long = fixed_cap(*ty).map_or(false, |c| *len > c);
                let short = bytes.len() < need;
                match r {
                    Ok(z) => {
                        ensure!(!too_long, format!("{}/accepted-overflow", what), "read of {} bits succeeded beyond capacity", len);
                        ensure!(!short, format!("{}/accepted-short", what), "read of {} bits succeeded with only {} bytes of input", len, bytes.len());
                        let e = bytes_value(&bytes[..need], *big).zext(*len);
                        battery_z(&z, &e, strength(st), &what).map_err(|mut v| {
                            v.msg = format!("{}::read({:02x?}, {}, {}): {}", NAMES[*ty as usize], &bytes[..need], len, if *big { "Big" } else { "Little" }, v.msg);
                            v
                        })?;
                        ensure!(consumed == need, format!("{}/consumed", what), "read of {} bits consumed {} bytes instead of {}", len, consumed, need);
                    }
                    Err(_) => {
                        ensure!(too_long || short, format!("{}/rejected", what), "{}::read of {} bits from {} bytes failed although it fits and the input suffices", NAMES[*ty as usize], len, bytes.len());
                    }
                }
                let surplus = *len % 8 != 0 && !short && !too_long && {
                    let top = if *big { bytes[0] } else { bytes[need - 1] };
                    (top >> (*len % 8)) != 0
                };
                st.class("read");
                st.class_if(*chunked, "one-byte reader");
                st.class_if(short, "short input");
                st.class_if(too_long, "read beyond capacity");
                st.class_if(surplus, "surplus bits set in the top byte");
                st.note(case, surplus || (!short && !too_long && *len > WORD_BITS[*ty as usize]));
                Ok(())
            }
        }
    }
}
