//! C11 - conversions to and from native integers preserve value and report overflow.

use super::common::*;
use crate::battery::battery;
use crate::engine::*;
use crate::gen::*;
use crate::spec::*;
use crate::stats::Stats;
use crate::{ensure, fail};
use proptest::collection::vec;
use proptest::prelude::*;
use serde::{Deserialize, Serialize};
use vcore::*;

#[derive(Clone, Debug, Hash, Serialize, Deserialize)]
pub enum C11Case {
    /// `T::try_from(x)` / `T::try_from(&x)` (`From` for Bvd/Bv)
    FromNat { ty: Tid, x: Nat, by_ref: bool },
    /// `T::try_from(&[J])`
    /// `skew`: the slice starts this many elements into a larger buffer
    FromSlice { ty: Tid, nty: NatTy, items: Vec<Nat>, #[serde(default)] skew: usize },
    /// `uN::try_from(&v)` / `uN::try_from(v)`
    ToNat { a: Operand, nty: NatTy, by_value: bool },
    /// Bit <-> bool / uN
    BitConv { x: Nat },
    /// `uN::try_from(&v)` (every native type) for a vector of more than 2^31 bits
    ToNatGiant { g: super::giant::GiantSpec },
}

pub struct C11;

fn bit_roundtrip(x: Nat) -> Result<(), String> {
    macro_rules! go {
        ($t:ty) => {{
            let k = x.v as $t;
            let b = Bit::from(k);
            if (b == Bit::One) != (k != 0) {
                return Err(format!("Bit::from({}{}) = {:?}", k, stringify!($t), b));
            }
            let z: $t = Bit::Zero.into();
            let o: $t = <$t>::from(Bit::One);
            if z != 0 || o != 1 {
                return Err(format!("{}::from(Bit) gives {} / {}", stringify!($t), z, o));
            }
        }};
    }
    match x.ty {
        NatTy::U8 => go!(u8),
        NatTy::U16 => go!(u16),
        NatTy::U32 => go!(u32),
        NatTy::U64 => go!(u64),
        NatTy::U128 => go!(u128),
        NatTy::Usize => go!(usize),
    }
    if Bit::from(true) != Bit::One || Bit::from(false) != Bit::Zero || !bool::from(Bit::One) || bool::from(Bit::Zero) {
        return Err("Bit <-> bool mapping wrong".into());
    }
    if Bit::Zero.to_string() != "0" || Bit::One.to_string() != "1" {
        return Err("Bit Display wrong".into());
    }
    Ok(())
}

fn sig128(v: u128) -> usize {
    128 - v.leading_zeros() as usize
}

impl Property for C11 {
    type Case = C11Case;
    fn id(&self) -> &'static str {
        "C11"
    }
    fn rule(&self) -> String {
        "Cases: (a) native integer x of each of six types -> each of 20 zoo types, by value and by reference; (b) slices of 0..5 (quick)/0..12 (thorough) integers of each type -> each zoo type; (c) vector of any type/length/provenance -> each native type, by reference and by value; (d) Bit<->bool/uN. Enumerated: all u8 and u16 values exhaustively and the integer lattice for wider types x 20 types x 2 forms; every vector length 0..=min(C,320) with three value classes plus values whose significant bits are w-1,w,w+1 for each native width w, x 6 native types x 2 forms; slices of every count whose total straddles the capacity. Oracle: native integer arithmetic: Ok(value x, length w or min(w,C)) or Err(NotEnoughCapacity) exactly when significant bits exceed the capacity/width; never a panic. Non-trivial: the value or length straddles a capacity or width boundary (within 1), or the vector is empty, or longer than the target width with a small value. Distinct by hash of the case.".into()
    }
    fn random_cases(&self, tier: Tier) -> u64 {
        tier.pick(300000, 9600000)
    }
    fn strategy(&self, tier: Tier) -> BoxedStrategy<C11Case> {
        let maxitems = tier.pick(6, 13);
        let from = (0..NT, arb_nat(), any::<bool>()).prop_map(|(ty, x, by_ref)| C11Case::FromNat { ty, x, by_ref });
        let slice = (0..NT, arb_nat_ty(), vec(any::<u128>(), 0..maxitems)).prop_map(|(ty, nty, xs)| C11Case::FromSlice { ty, nty, skew: xs.len() % 4, items: xs.into_iter().map(|x| Nat::new(nty, x)).collect() });
        let to = (arb_operand(tier), arb_nat_ty(), any::<bool>(), any::<u16>(), 0u8..4).prop_map(|(mut a, nty, by_value, f, mode)| {
            // bias: make the significant-bit count land around the target width
            if mode == 0 && a.len() > 0 {
                let w = nty.bits();
                let target = [w.saturating_sub(1), w, w + 1][frac(f, 3)];
                if target <= a.len() && target > 0 {
                    for i in target..a.len() {
                        a.bits.0[i] = false;
                    }
                    a.bits.0[target - 1] = true;
                }
            }
            C11Case::ToNat { a, nty, by_value }
        });
        let bitc = arb_nat().prop_map(|x| C11Case::BitConv { x });
        prop_oneof![4 => from, 3 => slice, 6 => to, 1 => bitc].boxed()
    }
    fn exhaustive_subspaces(&self, _tier: Tier) -> Vec<String> {
        vec![
            "every u8 and every u16 value -> each of the 20 zoo types, by value and by reference".into(),
            "every u8 and u16 value through Bit::from / uN::from(Bit)".into(),
        ]
    }
    fn enumerate(&self, tier: Tier, sh: &mut Shard, f: &mut dyn FnMut(C11Case) -> bool) {
        for ty in ROUTINE_TIDS {
            for by_ref in [false, true] {
                if !sh.mine() {
                    continue;
                }
                for v in 0u128..=0xffff {
                    if v <= 0xff && !f(C11Case::FromNat { ty, x: Nat::new(NatTy::U8, v), by_ref }) {
                        return;
                    }
                    if !f(C11Case::FromNat { ty, x: Nat::new(NatTy::U16, v), by_ref }) {
                        return;
                    }
                }
                for nty in [NatTy::U32, NatTy::U64, NatTy::U128, NatTy::Usize] {
                    let mut vs = nat_lattice(nty);
                    if let Some(c) = fixed_cap(ty) {
                        for k in [c.saturating_sub(1), c, c + 1] {
                            if k > 0 && k <= 128 {
                                vs.push((1u128 << (k - 1)) & nty.maxv());
                                vs.push(if k == 128 { u128::MAX } else { (1u128 << k) - 1 } & nty.maxv());
                            }
                        }
                    }
                    for v in vs {
                        if !f(C11Case::FromNat { ty, x: Nat::new(nty, v), by_ref }) {
                            return;
                        }
                    }
                }
            }
        }
        if sh.mine() {
            for v in 0u128..=0xffff {
                if v <= 0xff && !f(C11Case::BitConv { x: Nat::new(NatTy::U8, v) }) {
                    return;
                }
                if !f(C11Case::BitConv { x: Nat::new(NatTy::U16, v) }) {
                    return;
                }
            }
            for nty in NAT_TYS {
                for v in nat_lattice(nty) {
                    if !f(C11Case::BitConv { x: Nat::new(nty, v) }) {
                        return;
                    }
                }
            }
        }
        // slices: every count up to just beyond the capacity
        let maxitems = tier.pick(5, 12);
        for ty in ROUTINE_TIDS {
            for nty in NAT_TYS {
                if !sh.mine() {
                    continue;
                }
                let c = fixed_cap(ty).unwrap_or(usize::MAX);
                let maxc = if c == usize::MAX { maxitems } else { (c / nty.bits() + 2).min(40) };
                for count in 0..=maxc {
                    for pat in 0..5u128 {
                        // patterns 3 and 4 have an all-zero tail (only element 0 / elements 0..2 set)
                        let items: Vec<Nat> = (0..count).map(|i| Nat::new(nty, match pat { 0 => nty.maxv(), 1 => (i as u128 + 1) * 0x0123_4567_89AB_CDEF_0F1E_2D3C_4B5A_6978, 2 => 1u128 << ((i * 7) % nty.bits()), 3 => if i == 0 { nty.maxv() } else { 0 }, _ => if i < 2 { 5 } else { 0 } })).collect();
                        for skew in [0usize, 1, 3] {
                            if !f(C11Case::FromSlice { ty, nty, items: items.clone(), skew }) {
                                return;
                            }
                        }
                    }
                }
            }
        }
        // vectors of thousands of bits -> integers
        for ty in [TID_D, TID_A, 18u8] {
            let c = fixed_cap(ty).unwrap_or(usize::MAX);
            for n in [577usize, 640, 1024, 1025, 1343, 2048, 4097, 8193] {
                if !sh.mine() {
                    continue;
                }
                let n = n.min(c);
                let mut vals = long_values(n);
                vals.push(Bits::zeros(n));
                // only a high word set, plus a small low value
                for wtop in [n - 1, n - 65, n - 129, n / 2 + 3, 130] {
                    let mut b = Bits::from_u128(0x2a, n);
                    b.0[wtop] = true;
                    vals.push(b);
                }
                for a in vals {
                    for nty in NAT_TYS {
                        for by_value in [false, true] {
                            for prov in [Prov::Canon, Prov::Spare(200)] {
                                if !f(C11Case::ToNat { a: Operand { ty, bits: a.clone(), prov }, nty, by_value }) {
                                    return;
                                }
                            }
                        }
                    }
                }
            }
        }
        // the 70 400-bit fixed type and a geometric ladder of lengths up to megabits -> integers
        let mut long: Vec<(Tid, usize)> = HUGE_TYPE_LENS.iter().map(|&n| (TID_HUGE, n)).collect();
        long.extend(ladder_lengths(tier));
        for (ty, n) in long {
            if !sh.mine() {
                continue;
            }
            let mut vals = vec![Bits::zeros(n), Bits::from_u128(u128::MAX, n), Bits::from_u128(0xdead_beef, n), dense_value(n)];
            for wtop in [n - 1, n / 2 + 3, 130, 64] {
                let mut b = Bits::from_u128(0x2a, n);
                b.0[wtop.min(n - 1)] = true;
                vals.push(b);
            }
            for (j, a) in vals.into_iter().enumerate() {
                for nty in NAT_TYS {
                    let prov = if j % 2 == 1 && ty != TID_HUGE { Prov::Spare(200) } else { Prov::Canon };
                    if !f(C11Case::ToNat { a: Operand { ty, bits: a.clone(), prov }, nty, by_value: (j + n) % 2 == 0 }) {
                        return;
                    }
                }
            }
        }
        // long slices -> the 70 400-bit type (fits / just fits / exceeds) and the unbounded types
        for (ty, nty, count) in [(TID_HUGE, NatTy::U8, 8800usize), (TID_HUGE, NatTy::U8, 8801), (TID_HUGE, NatTy::U64, 1100), (TID_HUGE, NatTy::U64, 1101), (TID_HUGE, NatTy::U16, 4399), (TID_HUGE, NatTy::U128, 550), (TID_HUGE, NatTy::U32, 2201), (TID_D, NatTy::U8, 70_001), (TID_A, NatTy::U16, 40_000), (TID_D, NatTy::U128, 4097), (TID_A, NatTy::U64, 8193), (TID_D, NatTy::U32, 33_001)] {
            if !sh.mine() {
                continue;
            }
            for pat in 0..3u128 {
                let items: Vec<Nat> = (0..count).map(|i| Nat::new(nty, match pat { 0 => nty.maxv(), 1 => (i as u128 + 1).wrapping_mul(0x0123_4567_89AB_CDEF_0F1E_2D3C_4B5A_6979), _ => if i + 1 == count { 1 } else { 0 } })).collect();
                for skew in [0usize, 3] {
                    if !f(C11Case::FromSlice { ty, nty, items: items.clone(), skew }) {
                        return;
                    }
                }
            }
        }
        // beyond 2^31 and 2^32 bits: a small value (or not) in a giant vector
        for len in super::giant::GIANT_LENS {
            for heap_bv in [false, true] {
                if !sh.mine() {
                    continue;
                }
                for ones in super::giant::giant_lists(len) {
                    if !f(C11Case::ToNatGiant { g: super::giant::GiantSpec { len, ones, heap_bv } }) {
                        return;
                    }
                }
            }
        }
        // slices of 2^k/width + 3 elements (a partial last storage word) for the rungs of the ladder
        for k in 16..=tier.pick(21, 24) {
            if !sh.mine() {
                continue;
            }
            let (ty, nty) = [(TID_D, NatTy::U8), (TID_A, NatTy::U8), (TID_A, NatTy::U16), (TID_D, NatTy::U32), (TID_A, NatTy::U32)][k % 5];
            let count = (1usize << k) / nty.bits() + 3;
            let items: Vec<Nat> = (0..count).map(|i| Nat::new(nty, (i as u128 + 1).wrapping_mul(0x0123_4567_89AB_CDEF_0F1E_2D3C_4B5A_6979) | 1)).collect();
            if !f(C11Case::FromSlice { ty, nty, items, skew: k % 2 }) {
                return;
            }
        }
        // vectors -> integers: every length
        for ty in ROUTINE_TIDS {
            let c = fixed_cap(ty).unwrap_or(320);
            for n in 0..=c {
                if !sh.mine() {
                    continue;
                }
                let mut vals: Vec<Bits> = three_values(n).to_vec();
                vals.push(Bits::zeros(n));
                vals.push(Bits::from_u128(1, n));
                if n > 1 {
                    // small value plus the top bit; only the top bit
                    let mut b = Bits::from_u128(5, n);
                    b.0[n - 1] = true;
                    vals.push(b);
                    let mut b = Bits::zeros(n);
                    b.0[n - 1] = true;
                    vals.push(b);
                }
                for w in [8usize, 16, 32, 64, 128] {
                    for s in [w - 1, w, w + 1] {
                        if s <= n && s > 0 {
                            let mut b = Bits::ones(s).zext(n);
                            if s > 1 {
                                b.0[s / 2] = false;
                            }
                            vals.push(b);
                        }
                    }
                }
                for a in vals {
                    for nty in NAT_TYS {
                        for by_value in [false, true] {
                            if !f(C11Case::ToNat { a: Operand::canon(ty, a.clone()), nty, by_value }) {
                                return;
                            }
                        }
                    }
                }
            }
        }
    }
    fn check(&self, case: &C11Case, st: &mut Stats) -> CheckResult {
        match case {
            C11Case::FromNat { ty, x, by_ref } => {
                let what = format!("from-{}:{}", x.ty.name(), kind_of(*ty));
                let w = x.ty.bits();
                let cap = fixed_cap(*ty);
                let r = catch(|| tid_match!(*ty, T => T::from_nat(*x, *by_ref).map(|v| v.wrap())));
                let r = match r {
                    Ok(r) => r,
                    Err(p) => fail!(format!("{}/panic", what), "{}::try_from({}{}) panicked: {}", NAMES[*ty as usize], x.v, x.ty.name(), p),
                };
                let fits = cap.map_or(true, |c| sig128(x.v) <= c);
                match r {
                    Ok(z) => {
                        ensure!(fits, format!("{}/accepted-overflow", what), "{}::try_from({}{}) succeeded although the value needs {} bits", NAMES[*ty as usize], x.v, x.ty.name(), sig128(x.v));
                        let elen = cap.map_or(w, |c| w.min(c));
                        let e = Bits::from_u128(x.v, elen);
                        z_match!(&z, v => battery(v, &e, strength(st), &what)).map_err(|mut v| {
                            v.msg = format!("{}::try_from({}{}): {}", NAMES[*ty as usize], x.v, x.ty.name(), v.msg);
                            v
                        })?;
                    }
                    Err(e) => {
                        ensure!(!fits && e == ConvertionError::NotEnoughCapacity, format!("{}/rejected", what), "{}::try_from({}{}) failed with {:?} although the value fits", NAMES[*ty as usize], x.v, x.ty.name(), e);
                    }
                }
                st.class(if *by_ref { "from &uN" } else { "from uN" });
                st.class_if(!fits, "from uN: overflow");
                let near = cap.map_or(false, |c| (sig128(x.v) as i64 - c as i64).abs() <= 1 || (w as i64 - c as i64).abs() <= 8);
                st.note(case, near || x.v == x.ty.maxv() || x.v == 0);
                Ok(())
            }
            C11Case::FromSlice { ty, nty, items, skew } => {
                let what = format!("from-slice-{}:{}", nty.name(), kind_of(*ty));
                let total = items.len() * nty.bits();
                let cap = fixed_cap(*ty);
                let raw: Vec<u128> = items.iter().map(|x| x.v).collect();
                let r = catch(|| tid_match!(*ty, T => T::from_slice_skewed(*nty, &raw, *skew).map(|v| v.wrap())));
                let r = match r {
                    Ok(r) => r,
                    Err(p) => fail!(format!("{}/panic", what), "{}::try_from(&[{}; {}]) panicked: {}", NAMES[*ty as usize], nty.name(), items.len(), p),
                };
                let fits = cap.map_or(true, |c| total <= c);
                match r {
                    Ok(z) => {
                        ensure!(fits, format!("{}/accepted-overflow", what), "{}::try_from(&[{}; {}]) succeeded beyond capacity", NAMES[*ty as usize], nty.name(), items.len());
                        let mut e = Vec::with_capacity(total);
                        for x in items {
                            e.extend(Bits::from_u128(x.v, nty.bits()).0);
                        }
                        z_match!(&z, v => battery(v, &Bits(e), strength(st), &what)).map_err(|mut v| {
                            v.msg = format!("{}::try_from(&{:?} as [{}]): {}", NAMES[*ty as usize], raw, nty.name(), v.msg);
                            v
                        })?;
                    }
                    Err(e) => {
                        ensure!(!fits && e == ConvertionError::NotEnoughCapacity, format!("{}/rejected", what), "{}::try_from(&[{}; {}]) failed with {:?} although {} bits fit", NAMES[*ty as usize], nty.name(), items.len(), e, total);
                    }
                }
                st.class("from slice");
                st.class_if(*skew > 0, "from slice: sub-slice not starting at the allocation");
                st.class_if(items.is_empty(), "empty slice");
                st.class_if(!fits, "from slice: overflow");
                st.note(case, cap.map_or(items.len() >= 2, |c| (total as i64 - c as i64).abs() <= nty.bits() as i64));
                Ok(())
            }
            C11Case::ToNat { a, nty, by_value } => {
                let what = format!("to-{}:{}", nty.name(), kind_of(a.ty));
                let za = build_checked(a, "source")?;
                let r = match catch(|| z_match!(&za, v => v.to_nat(*nty, *by_value))) {
                    Ok(r) => r,
                    Err(p) => fail!(format!("{}/panic", what), "{}::try_from({}) panicked: {}", nty.name(), a.describe(), p),
                };
                let sig = a.bits.significant();
                let exp = if sig <= nty.bits() { Ok(a.bits.low_u128()) } else { Err(ConvertionError::NotEnoughCapacity) };
                ensure!(r == exp, format!("{}/wrong", what), "{}::try_from({}) = {:?}, expected {:?} (raw {})", nty.name(), a.describe(), r, exp, za.raw());
                unchanged(&za, &a.bits, &what)?;
                st.class(if *by_value { "to uN by value" } else { "to uN by ref" });
                st.class(a.prov.class());
                st.class_if(a.len() == 0, "empty vector to uN");
                st.class_if(a.len() > nty.bits() && sig <= nty.bits(), "long vector, small value");
                st.class_if(exp.is_err(), "to uN: overflow");
                st.note(case, a.len() == 0 || (sig as i64 - nty.bits() as i64).abs() <= 1 || (a.len() > nty.bits() && sig <= nty.bits()));
                Ok(())
            }
            C11Case::ToNatGiant { g } => {
                ensure!(g.valid(), "bad-case", "giant case with a set bit beyond the length");
                if !super::giant::giant_available(g.len) {
                    st.class("giant vector skipped: memory not available");
                    st.note(case, false);
                    return Ok(());
                }
                fn q<T: Subject>(g: &super::giant::GiantSpec) -> Vec<(NatTy, Result<u128, ConvertionError>)> {
                    let v: T = g.build();
                    NAT_TYS.iter().map(|&t| (t, v.to_nat(t, false))).collect()
                }
                let got = match catch(|| if g.heap_bv { q::<Bv>(g) } else { q::<Bvd>(g) }) {
                    Ok(x) => x,
                    Err(p) => fail!("to-uN:giant/panic", "uN::try_from(&v) for a {}-bit vector with ones at {:?} panicked: {}", g.len, g.ones, p),
                };
                for (t, r) in got {
                    let exp = if g.significant() <= t.bits() { Ok(g.low_u128().unwrap()) } else { Err(ConvertionError::NotEnoughCapacity) };
                    ensure!(r == exp, format!("to-{}:giant/wrong", t.name()), "{}::try_from(&v) for a {}-bit vector with ones at {:?} = {:?}, expected {:?}", t.name(), g.len, g.ones, r, exp);
                }
                st.class("giant vector (> 2^31 bits)");
                st.note(case, true);
                Ok(())
            }
            C11Case::BitConv { x } => {
                if let Err(e) = bit_roundtrip(*x) {
                    fail!("bit-conv", "{}", e);
                }
                st.class("Bit conversions");
                st.note(case, x.v > 1);
                Ok(())
            }
        }
    }
}
