//! C12 - conversions between implementations preserve length and every bit.

use super::common::*;
use crate::battery::battery_z;
use crate::engine::*;
use crate::gen::*;
use crate::spec::*;
use crate::stats::Stats;
use crate::{ensure, fail};
use proptest::prelude::*;
use serde::{Deserialize, Serialize};
use vcore::*;

#[derive(Clone, Debug, Hash, Serialize, Deserialize)]
pub enum C12Case {
    Convert { a: Operand, dst: Tid, by_value: bool },
    /// `T::new(parts of into_inner())` (Bvf and Bvd only)
    Rebuild { a: Operand },
}

pub struct C12;

impl Property for C12 {
    type Case = C12Case;
    fn id(&self) -> &'static str {
        "C12"
    }
    fn rule(&self) -> String {
        "Cases: (source vector of any zoo type/length/provenance incl. spare capacity and heap-mode Bv, destination zoo type, by reference | by value) for every ordered pair of the 20 types and every form that exists (Bvf->Bvf exists by reference only), plus new(into_inner()) for Bvf and Bvd. Enumerated: every source length n<=min(C_S,320) x three value classes x 20x20 pairs x both forms. Oracle: the target has the same length and bits and passes the observer battery; Err(NotEnoughCapacity) exactly when n exceeds the target's fixed capacity, never for Bvd/Bv targets; the source is unchanged. Non-trivial: n>0 and (n is not a multiple of the target's storage word, or |n - capacity(target)|<=1, or the source has non-canonical provenance). Distinct by hash of the case.".into()
    }
    fn random_cases(&self, tier: Tier) -> u64 {
        tier.pick(200000, 6400000)
    }
    fn strategy(&self, tier: Tier) -> BoxedStrategy<C12Case> {
        let conv = (arb_operand(tier), arb_tid(), any::<bool>()).prop_map(|(a, dst, by_value)| C12Case::Convert { a, dst, by_value });
        let reb = arb_operand(tier).prop_map(|a| C12Case::Rebuild { a });
        prop_oneof![8 => conv, 1 => reb].boxed()
    }
    fn exhaustive_subspaces(&self, _tier: Tier) -> Vec<String> {
        vec!["every source length n<=min(capacity,320) x four value classes (incl. a small value in a long vector) x all 20x20 ordered type pairs x by-reference/by-value".into()]
    }
    fn enumerate(&self, tier: Tier, sh: &mut Shard, f: &mut dyn FnMut(C12Case) -> bool) {
        for s in ROUTINE_TIDS {
            for d in ROUTINE_TIDS {
                if !sh.mine() {
                    continue;
                }
                let c = fixed_cap(s).unwrap_or(320);
                for n in 0..=c {
                    let mut vals = three_values(n).to_vec();
                    vals.push(Bits::from_u128(1, n));
                    for a in vals {
                        for by_value in [false, true] {
                            if !f(C12Case::Convert { a: Operand::canon(s, a.clone()), dst: d, by_value }) {
                                return;
                            }
                        }
                    }
                }
            }
        }
        for (t, n) in dense_lengths(tier) {
            if !sh.mine() {
                continue;
            }
            let a = dense_value(n);
            for d in [TID_D, TID_A, 18u8, 11u8] {
                if !f(C12Case::Convert { a: Operand::canon(t, a.clone()), dst: d, by_value: n % 2 == 0 }) {
                    return;
                }
            }
        }
        for s in [TID_D, TID_A] {
            for d in ROUTINE_TIDS {
                if !sh.mine() {
                    continue;
                }
                for n in [64usize, 128, 1024, 1343, 2560, 2561, 4097, 8193] {
                    for a in long_values(n) {
                        for prov in [Prov::Canon, Prov::Spare(200), Prov::Spare(4200), Prov::Spare(9000)] {
                            for by_value in [false, true] {
                                if !f(C12Case::Convert { a: Operand { ty: s, bits: a.clone(), prov: prov.clone() }, dst: d, by_value }) {
                                    return;
                                }
                            }
                        }
                    }
                }
            }
        }
        // the 70 400-bit fixed type as source and as destination
        for (s, d) in [(TID_HUGE, TID_D), (TID_HUGE, TID_A), (TID_D, TID_HUGE), (TID_A, TID_HUGE), (TID_HUGE, TID_HUGE), (TID_HUGE, 18u8), (18u8, TID_HUGE), (TID_HUGE, 4u8), (12u8, TID_HUGE)] {
            if !sh.mine() {
                continue;
            }
            let sc = fixed_cap(s).unwrap_or(usize::MAX);
            for n in [0usize, 131, 2560, 2561, 4097, 8193, 65535, 65537, 70399, 70400, 70401, 70464] {
                if n > sc {
                    continue;
                }
                let vals = if n == 0 { vec![Bits::new()] } else { vec![long_values(n)[1].clone(), long_values(n)[3].clone()] };
                for a in vals {
                    for prov in [Prov::Canon, Prov::Spare(200)] {
                        for by_value in [false, true] {
                            if !f(C12Case::Convert { a: Operand { ty: s, bits: a.clone(), prov: prov.clone() }, dst: d, by_value }) {
                                return;
                            }
                        }
                    }
                }
                if s == TID_HUGE && d == TID_D && n > 0 && !f(C12Case::Rebuild { a: Operand::canon(s, long_values(n)[1].clone()) }) {
                    return;
                }
            }
        }
        // a geometric ladder of lengths up to megabits between the unbounded types (and into the
        // 70 400-bit type, which must refuse), with and without spare capacity
        for (t, n) in ladder_lengths(tier) {
            if !sh.mine() {
                continue;
            }
            let a = dense_value(n);
            for (j, prov) in [Prov::Canon, Prov::Spare(64), Prov::Spare(9000), Prov::LongThenTrunc(130)].into_iter().enumerate() {
                for d in [TID_D, TID_A] {
                    if !f(C12Case::Convert { a: Operand { ty: t, bits: a.clone(), prov: prov.clone() }, dst: d, by_value: (j + n + d as usize) % 2 == 0 }) {
                        return;
                    }
                }
            }
            if !f(C12Case::Convert { a: Operand::canon(t, a.clone()), dst: TID_HUGE, by_value: n % 2 == 0 }) {
                return;
            }
            if t == TID_D && !f(C12Case::Rebuild { a: Operand { ty: t, bits: a.clone(), prov: Prov::Spare(200) } }) {
                return;
            }
        }
        for s in ROUTINE_TIDS {
            if !sh.mine() {
                continue;
            }
            let c = fixed_cap(s).unwrap_or(320);
            for n in 0..=c {
                for a in three_values(n) {
                    for prov in [Prov::Canon, Prov::Spare(100), Prov::LongThenTrunc(70)] {
                        if !f(C12Case::Rebuild { a: Operand { ty: s, bits: a.clone(), prov } }) {
                            return;
                        }
                    }
                }
            }
        }
    }
    fn check(&self, case: &C12Case, st: &mut Stats) -> CheckResult {
        match case {
            C12Case::Convert { a, dst, by_value } => {
                let what = format!("convert:{}->{}:{}", kind_of(a.ty), kind_of(*dst), if *by_value { "value" } else { "ref" });
                let za = build_checked(a, "source")?;
                let r = match catch(|| tab_conv::convert(&za, *dst, *by_value)) {
                    Ok(r) => r,
                    Err(p) => fail!(format!("{}/panic", what), "{} -> {} panicked: {}", a.describe(), NAMES[*dst as usize], p),
                };
                let Some(r) = r else {
                    st.class("form does not exist (Bvf->Bvf by value)");
                    st.note(case, false);
                    return Ok(());
                };
                let n = a.len();
                let fits = fixed_cap(*dst).map_or(true, |c| n <= c);
                match r {
                    Ok(z) => {
                        ensure!(fits, format!("{}/accepted-overflow", what), "{} -> {} succeeded beyond capacity", a.describe(), NAMES[*dst as usize]);
                        ensure!(z.tid() == *dst, format!("{}/type", what), "wrong target type");
                        battery_z(&z, &a.bits, strength(st), &what).map_err(|mut v| {
                            v.msg = format!("{} -> {}: {}", a.describe(), NAMES[*dst as usize], v.msg);
                            v
                        })?;
                    }
                    Err(e) => {
                        ensure!(!fits && e == ConvertionError::NotEnoughCapacity, format!("{}/rejected", what), "{} -> {} failed with {:?} although {} bits fit", a.describe(), NAMES[*dst as usize], e, n);
                    }
                }
                unchanged(&za, &a.bits, &what)?;
                let dw = WORD_BITS[*dst as usize];
                st.class(&format!("{}->{}", kind_of(a.ty), kind_of(*dst)));
                st.class(a.prov.class());
                st.class_if(!fits, "target too small");
                if let Some(h) = z_match!(&za, v => v.is_heap()) {
                    st.class(if h { "Bv source on heap" } else { "Bv source inline" });
                }
                st.note(case, n > 0 && (n % dw != 0 || fixed_cap(*dst).map_or(false, |c| (n as i64 - c as i64).abs() <= 1) || a.prov != Prov::Canon));
                Ok(())
            }
            C12Case::Rebuild { a } => {
                let what = format!("new(into_inner):{}", kind_of(a.ty));
                let za = build_checked(a, "source")?;
                let r = match catch(|| z_match!(&za, v => v.rebuild_inner().map(|x| x.wrap()))) {
                    Ok(r) => r,
                    Err(p) => fail!(format!("{}/panic", what), "{}: new(into_inner()) panicked: {}", a.describe(), p),
                };
                if let Some(z) = r {
                    battery_z(&z, &a.bits, strength(st), &what).map_err(|mut v| {
                        v.msg = format!("{}: new(into_inner()): {}", a.describe(), v.msg);
                        v
                    })?;
                    st.class("new(into_inner())");
                    st.note(case, a.len() > 0 && a.prov != Prov::Canon);
                } else {
                    st.class("no into_inner for Bv");
                    st.note(case, false);
                }
                Ok(())
            }
        }
    }
}
