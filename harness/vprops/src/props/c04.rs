//! C04 - and/or/xor/not act bit-by-bit within the left operand's length (DESIGN.md 2, C04).

use super::common::*;
use crate::battery::battery_z;
use crate::engine::*;
use crate::gen::*;
use crate::spec::*;
use crate::stats::Stats;
use crate::{ensure, fail};
use proptest::prelude::*;
use serde::{Deserialize, Serialize};
use vcore::*;

#[derive(Clone, Debug, Hash, Serialize, Deserialize)]
pub enum C04Case {
    Bin { a: Operand, b: Rhs, op: BinOp, form: Form },
    Not { a: Operand, owned: bool },
    /// the same operators (and `!` on the left operand) on `Bvf<u8,320>`, outside the zoo
    Wide(super::wide::WideCase),
    /// `v op= x` with a native integer x on a vector of more than 2^31 bits (given sparsely)
    GiantNat { g: super::giant::GiantSpec, op: BinOp, x: Nat },
}

pub struct C04;

const LOGIC: [BinOp; 3] = [BinOp::And, BinOp::Or, BinOp::Xor];

fn arb_form() -> impl Strategy<Value = Form> {
    (0usize..6).prop_map(|i| FORMS[i])
}

impl Property for C04 {
    type Case = C04Case;
    fn id(&self) -> &'static str {
        "C04"
    }
    fn rule(&self) -> String {
        "Cases: (LHS operand of any zoo type/length/provenance, RHS vector of any type/length/provenance or native integer, op in {&,|,^}, one of 6 operator forms) and (operand, ! owned|borrowed). Enumerated: all (n,a,m,b) with n,m<=4 (quick) / <=6 (thorough) for all 20x20 type pairings and 3 ops; all (n<=4/6,a) x integer lattice x 20 x 6 native types; every LHS length up to capacity (<=320) against an all-ones RHS of length n+1 / next word boundary / RHS capacity for all pairings; ! on all values n<=8 and every length with 3 value classes. Giant vectors (2^31+69 and 2^32+77 bits, Bvd and heap Bv, sparse): v op= x with two native integers. Long vectors: the 2560-bit and 70 400-bit fixed types and Bvd/Bv at 1024..8193 bits, every length 321..2600 (thorough 8300), and a geometric ladder of lengths around every power of two from 2^14 to 2^21 (thorough 2^24) bits. Also Bvf<u8,320> (2560 bits in one-byte words, outside the zoo) as left operand against {itself,Bvd,Bv,Bvf<u32,80>} and as right operand of Bvd, lengths 2040..2560, with ! on the left operand (non-trivial there: length not a multiple of 8, both values non-zero). Random: proptest. Oracle: per-bit Boolean function on bit lists (RHS zero-extended, cut at n) + observer battery. Non-trivial: result differs from a AND (RHS longer than LHS with a set bit at index >= n, or LHS longer than RHS with a set bit above m); for !: n not a multiple of the storage word and n>0. Distinct by hash of the whole case.".into()
    }
    fn random_cases(&self, tier: Tier) -> u64 {
        tier.pick(200000, 8000000)
    }
    fn strategy(&self, tier: Tier) -> BoxedStrategy<C04Case> {
        prop_oneof![
            6 => (arb_operand(tier), arb_rhs(tier), 0usize..3, arb_form()).prop_map(|(a, b, o, form)| C04Case::Bin { a, b, op: LOGIC[o], form }),
            1 => (arb_operand(tier), any::<bool>()).prop_map(|(a, owned)| C04Case::Not { a, owned }),
            1 => (0usize..=520, 0u8..6, 0u8..6, any::<u64>(), 0usize..5, 0usize..4, 0usize..3, any::<bool>(), any::<bool>()).prop_map(|(dn, asel, bsel, seed, msel, rt, o, assign, dyn_left)| {
                use super::wide::{wide_value, WideCase, WideTy, WIDE_RHS};
                let n = 2560 - dn;
                let rhs = if dyn_left { WideTy::W8 } else { WIDE_RHS[rt] };
                let m = [n, n + 40, n.saturating_sub(9), n / 2 + 3, 2560][msel].min(rhs.cap());
                let (lhs, n) = if dyn_left { (WideTy::D, n + (seed % 700) as usize) } else { (WideTy::W8, n) };
                C04Case::Wide(WideCase { lhs, a: wide_value(n, asel, seed), rhs, b: wide_value(m, bsel, seed ^ 0x55), op: LOGIC[o], assign })
            }),
        ]
        .boxed()
    }
    fn exhaustive_subspaces(&self, tier: Tier) -> Vec<String> {
        let k = tier.pick(4, 6);
        vec![
            format!("all values of both operands for all lengths n,m<={} x 20x20 type pairings x {{&,|,^}} (form rotates)", k),
            format!("all values for n<={} x integer lattice x 20 LHS types x 6 native RHS types x {{&,|,^}}", k),
            "! (both forms) on all values for n<=8 (clipped to capacity) on all 20 types".into(),
        ]
    }
    fn enumerate(&self, tier: Tier, sh: &mut Shard, f: &mut dyn FnMut(C04Case) -> bool) {
        // beyond 2^31 and 2^32 bits: a native right operand whose bits straddle the length
        // reduced modulo 2^32
        for len in super::giant::GIANT_LENS {
            for heap_bv in [false, true] {
                if !sh.mine() {
                    continue;
                }
                for ones in super::giant::giant_lists(len).into_iter().take(2) {
                    for op in LOGIC {
                        for x in [Nat::new(NatTy::U16, 0xffff), Nat::new(NatTy::U128, u128::MAX)] {
                            if !f(C04Case::GiantNat { g: super::giant::GiantSpec { len, ones: ones.clone(), heap_bv }, op, x }) {
                                return;
                            }
                        }
                    }
                }
            }
        }
        // more than 255 one-byte words in use: Bvf<u8,320>, outside the zoo
        if !super::wide::enumerate_wide(&LOGIC, tier == Tier::Thorough, sh, &mut |c| f(C04Case::Wide(c))) {
            return;
        }
        let k = tier.pick(4, 6);
        let mut rot = 0usize;
        // (i) complete small scope, vector RHS
        for lt in ROUTINE_TIDS {
            for rt in ROUTINE_TIDS {
                if !sh.mine() {
                    continue;
                }
                for n in 0..=k {
                    for m in 0..=k {
                        for a in all_values(n) {
                            for b in all_values(m) {
                                for op in LOGIC {
                                    for pa in scope_provs(lt) {
                                        for pb in scope_provs(rt) {
                                            rot += 1;
                                            let c = C04Case::Bin { a: Operand::fitted(lt, a.clone(), pa.clone()), b: Rhs::V(Operand::fitted(rt, b.clone(), pb)), op, form: FORMS[rot % 6] };
                                            if !f(c) {
                                                return;
                                            }
                                        }
                                    }
                                }
                            }
                        }
                    }
                }
            }
        }
        // (ii) complete small scope, native RHS over the integer lattice
        for lt in ROUTINE_TIDS {
            for nty in NAT_TYS {
                if !sh.mine() {
                    continue;
                }
                for n in 0..=k {
                    for a in all_values(n) {
                        for x in nat_lattice(nty) {
                            for op in LOGIC {
                                rot += 1;
                                let c = C04Case::Bin { a: Operand::canon(lt, a.clone()), b: Rhs::N(Nat::new(nty, x)), op, form: FORMS[rot % 6] };
                                if !f(c) {
                                    return;
                                }
                            }
                        }
                    }
                }
            }
        }
        // (iii) every LHS length against a longer all-ones RHS
        let lmax = 320;
        for lt in ROUTINE_TIDS {
            for rt in ROUTINE_TIDS {
                if !sh.mine() {
                    continue;
                }
                let lc = fixed_cap(lt).unwrap_or(lmax);
                let rc = fixed_cap(rt).unwrap_or(lmax + 70);
                let rw = WORD_BITS[rt as usize];
                for n in 0..=lc {
                    let mut ms = vec![n + 1, (n / rw + 1) * rw, rc];
                    ms.retain(|&m| m <= rc && m > n);
                    ms.sort();
                    ms.dedup();
                    for m in ms {
                        for op in LOGIC {
                            for a in [realize_val(&ValPat::Alt(true), n, 8), Bits::zeros(n)] {
                                rot += 1;
                                let c = C04Case::Bin { a: Operand::canon(lt, a), b: Rhs::V(Operand::canon(rt, Bits::ones(m))), op, form: FORMS[rot % 6] };
                                if !f(c) {
                                    return;
                                }
                            }
                        }
                    }
                }
            }
        }
        // (iii-a) every length up to the dense bound
        for (t, n) in dense_lengths(tier) {
            if !sh.mine() {
                continue;
            }
            let a = dense_value(n);
            for owned in [false, true] {
                if !f(C04Case::Not { a: Operand::canon(t, a.clone()), owned }) {
                    return;
                }
            }
            rot += 1;
            let c = C04Case::Bin { a: Operand::canon(t, a.clone()), b: Rhs::V(Operand::canon(if n % 3 == 0 { TID_D } else { TID_A }, Bits::ones(n + 1))), op: LOGIC[n % 3], form: FORMS[rot % 6] };
            if !f(c) {
                return;
            }
        }
        // (iii-b) thousands of bits
        for lt in [TID_D, TID_A, 18u8] {
            for rt in [TID_D, TID_A, 18u8, 9u8] {
                if !sh.mine() {
                    continue;
                }
                let lc = fixed_cap(lt).unwrap_or(usize::MAX);
                let rc = fixed_cap(rt).unwrap_or(usize::MAX);
                for n in LONG_LENS {
                    let n = n.min(lc);
                    for m in [n, n + 64, n / 2 + 7, 64usize] {
                        let m = m.min(rc);
                        for a in long_values(n) {
                            for b in [Bits::ones(m), long_values(m)[1].clone()] {
                                for op in LOGIC {
                                    rot += 1;
                                    let c = C04Case::Bin { a: Operand::canon(lt, a.clone()), b: Rhs::V(Operand::canon(rt, b.clone())), op, form: FORMS[rot % 6] };
                                    if !f(c) {
                                        return;
                                    }
                                }
                            }
                        }
                    }
                    for a in long_values(n) {
                        for prov in [Prov::Canon, Prov::Spare(200), Prov::Spare(4200)] {
                            for owned in [false, true] {
                                if !f(C04Case::Not { a: Operand { ty: lt, bits: a.clone(), prov: prov.clone() }, owned }) {
                                    return;
                                }
                            }
                        }
                    }
                }
            }
        }
        // (iii-c) the 70 400-bit fixed type
        for (lt, rt) in HUGE_PAIRS {
            if !sh.mine() {
                continue;
            }
            let lc = fixed_cap(lt).unwrap_or(usize::MAX);
            let rc = fixed_cap(rt).unwrap_or(usize::MAX);
            for n in HUGE_TYPE_LENS {
                let n = n.min(lc);
                for m in [n, n + 64, n / 2 + 7] {
                    let m = m.min(rc);
                    for (a, b) in [(long_values(n)[1].clone(), Bits::ones(m)), (long_values(n)[5].clone(), long_values(m)[1].clone())] {
                        for op in LOGIC {
                            rot += 1;
                            if !f(C04Case::Bin { a: Operand::canon(lt, a.clone()), b: Rhs::V(Operand::canon(rt, b.clone())), op, form: FORMS[rot % 6] }) {
                                return;
                            }
                        }
                    }
                }
                if lt == TID_HUGE {
                    for owned in [false, true] {
                        if !f(C04Case::Not { a: Operand::canon(lt, long_values(n)[1].clone()), owned }) {
                            return;
                        }
                    }
                }
            }
        }
        // (iii-d) geometric ladder of lengths up to megabits on the unbounded types
        for (t, n) in ladder_lengths(tier) {
            if !sh.mine() {
                continue;
            }
            let other = if t == TID_D { TID_A } else { TID_D };
            let a = dense_value(n);
            rot += 1;
            if !f(C04Case::Not { a: Operand::canon(t, a.clone()), owned: rot % 2 == 0 }) {
                return;
            }
            for (b, op) in [(Operand::canon(other, Bits::ones(n + 1)), LOGIC[n % 3]), (Operand::canon(t, dense_value(n - 3)), LOGIC[(n + 1) % 3]), (Operand { ty: t, bits: Bits::ones(n / 2), prov: Prov::Spare(300) }, LOGIC[(n + 2) % 3])] {
                rot += 1;
                if !f(C04Case::Bin { a: Operand::canon(t, a.clone()), b: Rhs::V(b), op, form: FORMS[rot % 6] }) {
                    return;
                }
            }
        }
        // (iv) not
        for t in ROUTINE_TIDS {
            if !sh.mine() {
                continue;
            }
            let c = fixed_cap(t).unwrap_or(lmax);
            for n in 0..=8usize.min(c) {
                for a in all_values(n) {
                    for owned in [false, true] {
                        if !f(C04Case::Not { a: Operand::canon(t, a.clone()), owned }) {
                            return;
                        }
                    }
                }
            }
            for n in 9..=c {
                for a in three_values(n) {
                    for owned in [false, true] {
                        if !f(C04Case::Not { a: Operand::canon(t, a.clone()), owned }) {
                            return;
                        }
                    }
                }
            }
        }
    }

    fn check(&self, case: &C04Case, st: &mut Stats) -> CheckResult {
        match case {
            C04Case::GiantNat { g, op, x } => {
                ensure!(g.valid() && LOGIC.contains(op), "bad-case", "giant logic case outside its domain");
                if !super::giant::giant_available(g.len) {
                    st.class("giant vector skipped: memory not available");
                    st.note(case, false);
                    return Ok(());
                }
                // expected set bits: x occupies the low 128 bits at most
                let xb = |i: usize| i < x.ty.bits() && (x.v >> i) & 1 == 1;
                let expect = |i: usize| match op {
                    BinOp::And => g.bit(i) && xb(i),
                    BinOp::Or => g.bit(i) || xb(i),
                    _ => g.bit(i) != xb(i),
                };
                // (in place on the giant itself: no clone of half a gigabyte)
                macro_rules! go {
                    ($T:ty) => {{
                        let mut r: $T = g.build();
                        nat_match!(*x, k => match op {
                            BinOp::And => r &= k,
                            BinOp::Or => r |= k,
                            _ => r ^= k,
                        });
                        let probes: Vec<(usize, bool)> = g.ones.iter().flat_map(|&p| [p, (p + 1).min(g.len - 1)]).map(|p| (p, unbit(r.get(p)))).collect();
                        (r.len(), read_bits(&r.copy_range(0..256)), probes, r.significant_bits())
                    }};
                }
                let (len, low, probes, sig) = match catch(|| if g.heap_bv { go!(Bv) } else { go!(Bvd) }) {
                    Ok(t) => t,
                    Err(p) => fail!("giant-logic/panic", "a {}-bit vector with ones at {:?} {}= {}{} panicked: {}", g.len, g.ones, op.sym(), x.v, x.ty.name(), p),
                };
                let d = format!("a {}-bit vector with ones at {:?} {}= {:#x}{}", g.len, g.ones, op.sym(), x.v, x.ty.name());
                ensure!(len == g.len, "giant-logic/len", "{}: length became {}", d, len);
                let elow = Bits((0..256).map(expect).collect());
                ensure!(low == elow, "giant-logic/low-bits", "{}: bits 0..256 are {}, expected {}", d, short(&low), short(&elow));
                for (p, b) in probes {
                    ensure!(b == expect(p), "giant-logic/high-bits", "{}: bit {} is {}, expected {}", d, p, b as u8, expect(p) as u8);
                }
                let esig = (0..256).rev().find(|&i| expect(i)).map(|i| i + 1);
                let esig = g.ones.iter().copied().filter(|&p| expect(p)).max().map(|m| m + 1).max(esig).unwrap_or(0);
                ensure!(sig == esig, "giant-logic/significant_bits", "{}: significant_bits() = {}, expected {}", d, sig, esig);
                st.class("giant vector (> 2^31 bits)");
                st.note(case, true);
                Ok(())
            }
            C04Case::Wide(w) => {
                ensure!(LOGIC.contains(&w.op), "bad-case", "C04 wide case with non-logic operator");
                super::wide::check_wide(w)?;
                if w.lhs == super::wide::WideTy::W8 {
                    super::wide::check_wide_not(&w.a)?;
                }
                st.class("Bvf<u8,320>: over 255 one-byte words");
                st.note(case, w.a.len() % 8 != 0 && !w.a.is_zero() && !w.b.is_zero());
                Ok(())
            }
            C04Case::Bin { a, b, op, form } => {
                let what = format!("{}:{}:{}x{}", op_name(*op), shape_class(a, b), kind_of(a.ty), rhs_kind(b));
                let za = build_checked(a, "left")?;
                let rb = build_rhs_checked(b)?;
                let bbits = b.bits();
                let expected = model_bin(&a.bits, &bbits, *op).unwrap();
                let res = match apply_bin(&za, rb.as_ref(), *op, *form) {
                    Ok(r) => r,
                    Err(p) => fail!(format!("{}/panic", what), "{} {} {} ({:?}) panicked: {}", a.describe(), op.sym(), b.describe(), form, p),
                };
                ensure!(res.tid() == a.ty, format!("{}/type", what), "result type differs from LHS type");
                battery_z(&res, &expected, strength(st), &what).map_err(|mut v| {
                    v.msg = format!("{} {} {} ({:?}): {}", a.describe(), op.sym(), b.describe(), form, v.msg);
                    v
                })?;
                unchanged(&za, &a.bits, &what)?;
                if let BuiltRhs::V(zb) = &rb {
                    unchanged(zb, &bbits, &what)?;
                }
                check_aliased(&za, a, b, *op, &what, st)?;
                let n = a.len();
                let m = b.len();
                let rhs_high = m > n && (n..m).any(|i| bbits.at(i));
                let lhs_high = n > m && (m..n).any(|i| a.bits.at(i));
                st.class(shape_class(a, b));
                st.class(a.prov.class());
                st.class_if(rhs_high, "rhs has set bit at index >= n");
                st.class_if(n == 0 || m == 0, "empty operand");
                st.class(&format!("form:{:?}", form));
                st.note(case, expected != a.bits && (rhs_high || lhs_high));
                Ok(())
            }
            C04Case::Not { a, owned } => {
                let what = format!("not:{}:{}", if *owned { "owned" } else { "borrowed" }, kind_of(a.ty));
                let za = build_checked(a, "subject")?;
                let expected = Bits(a.bits.0.iter().map(|&x| !x).collect());
                let res = match catch(|| z_match!(&za, v => v.not_x(*owned).wrap())) {
                    Ok(r) => r,
                    Err(p) => fail!(format!("{}/panic", what), "!{} panicked: {}", a.describe(), p),
                };
                battery_z(&res, &expected, strength(st), &what).map_err(|mut v| {
                    v.msg = format!("!{}: {}", a.describe(), v.msg);
                    v
                })?;
                unchanged(&za, &a.bits, &what)?;
                let w = WORD_BITS[a.ty as usize];
                st.class(if *owned { "not owned" } else { "not borrowed" });
                st.class(a.prov.class());
                st.note(case, a.len() > 0 && a.len() % w != 0);
                Ok(())
            }
        }
    }
    fn assumptions(&self) -> Vec<String> {
        vec!["trusted bridge: zeros(n)+set(i) builds canonical operands, len()+get(i) reads results back".into()]
    }
}
