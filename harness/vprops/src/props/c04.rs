//! C04 - and/or/xor/not act bit-by-bit within the left operand's length (DESIGN.md 2, C04).

use super::common::*;
use crate::battery::battery_z;
use crate::engine::*;
use crate::gen::*;
use crate::spec::*;
use crate::stats::Stats;
use crate::{ensure, fail};
use proptest::prelude::*;
use serde::{Deserialize, Serialize};
use vcore::*;

#[derive(Clone, Debug, Hash, Serialize, Deserialize)]
pub enum C04Case {
    Bin { a: Operand, b: Rhs, op: BinOp, form: Form },
    Not { a: Operand, owned: bool },
}

pub struct C04;

const LOGIC: [BinOp; 3] = [BinOp::And, BinOp::Or, BinOp::Xor];

fn arb_form() -> impl Strategy<Value = Form> {
    (0usize..6).prop_map(|i| FORMS[i])
}

impl Property for C04 {
    type Case = C04Case;
    fn id(&self) -> &'static str {
        "C04"
    }
    fn rule(&self) -> String {
        "Cases: (LHS operand of any zoo type/length/provenance, RHS vector of any type/length/provenance or native integer, op in {&,|,^}, one of 6 operator forms) and (operand, ! owned|borrowed). Enumerated: all (n,a,m,b) with n,m<=4 (quick) / <=6 (thorough) for all 20x20 type pairings and 3 ops; all (n<=4/6,a) x integer lattice x 20 x 6 native types; every LHS length up to capacity (<=320) against an all-ones RHS of length n+1 / next word boundary / RHS capacity for all pairings; ! on all values n<=8 and every length with 3 value classes. Random: proptest. Oracle: per-bit Boolean function on bit lists (RHS zero-extended, cut at n) + observer battery. Non-trivial: result differs from a AND (RHS longer than LHS with a set bit at index >= n, or LHS longer than RHS with a set bit above m); for !: n not a multiple of the storage word and n>0. Distinct by hash of the whole case.".into()
    }
    fn random_cases(&self, tier: Tier) -> u64 {
        tier.pick(200000, 8000000)
    }
    fn strategy(&self, tier: Tier) -> BoxedStrategy<C04Case> {
        prop_oneof![
            6 => (arb_operand(tier), arb_rhs(tier), 0usize..3, arb_form()).prop_map(|(a, b, o, form)| C04Case::Bin { a, b, op: LOGIC[o], form }),
            1 => (arb_operand(tier), any::<bool>()).prop_map(|(a, owned)| C04Case::Not { a, owned }),
        ]
        .boxed()
    }
    fn exhaustive_subspaces(&self, tier: Tier) -> Vec<String> {
        let k = tier.pick(4, 6);
        vec![
            format!("all values of both operands for all lengths n,m<={} x 20x20 type pairings x {{&,|,^}} (form rotates)", k),
            format!("all values for n<={} x integer lattice x 20 LHS types x 6 native RHS types x {{&,|,^}}", k),
            "! (both forms) on all values for n<=8 (clipped to capacity) on all 20 types".into(),
        ]
    }
    fn enumerate(&self, tier: Tier, sh: &mut Shard, f: &mut dyn FnMut(C04Case) -> bool) {
        let k = tier.pick(4, 6);
        let mut rot = 0usize;
        // (i) complete small scope, vector RHS
        for lt in 0..NT {
            for rt in 0..NT {
                if !sh.mine() {
                    continue;
                }
                for n in 0..=k {
                    for m in 0..=k {
                        for a in all_values(n) {
                            for b in all_values(m) {
                                for op in LOGIC {
                                    for pa in scope_provs(lt) {
                                        for pb in scope_provs(rt) {
                                            rot += 1;
                                            let c = C04Case::Bin { a: Operand { ty: lt, bits: a.clone(), prov: pa.clone() }, b: Rhs::V(Operand { ty: rt, bits: b.clone(), prov: pb }), op, form: FORMS[rot % 6] };
                                            if !f(c) {
                                                return;
                                            }
                                        }
                                    }
                                }
                            }
                        }
                    }
                }
            }
        }
        // (ii) complete small scope, native RHS over the integer lattice
        for lt in 0..NT {
            for nty in NAT_TYS {
                if !sh.mine() {
                    continue;
                }
                for n in 0..=k {
                    for a in all_values(n) {
                        for x in nat_lattice(nty) {
                            for op in LOGIC {
                                rot += 1;
                                let c = C04Case::Bin { a: Operand::canon(lt, a.clone()), b: Rhs::N(Nat::new(nty, x)), op, form: FORMS[rot % 6] };
                                if !f(c) {
                                    return;
                                }
                            }
                        }
                    }
                }
            }
        }
        // (iii) every LHS length against a longer all-ones RHS
        let lmax = 320;
        for lt in 0..NT {
            for rt in 0..NT {
                if !sh.mine() {
                    continue;
                }
                let lc = fixed_cap(lt).unwrap_or(lmax);
                let rc = fixed_cap(rt).unwrap_or(lmax + 70);
                let rw = WORD_BITS[rt as usize];
                for n in 0..=lc {
                    let mut ms = vec![n + 1, (n / rw + 1) * rw, rc];
                    ms.retain(|&m| m <= rc && m > n);
                    ms.sort();
                    ms.dedup();
                    for m in ms {
                        for op in LOGIC {
                            for a in [realize_val(&ValPat::Alt(true), n, 8), Bits::zeros(n)] {
                                rot += 1;
                                let c = C04Case::Bin { a: Operand::canon(lt, a), b: Rhs::V(Operand::canon(rt, Bits::ones(m))), op, form: FORMS[rot % 6] };
                                if !f(c) {
                                    return;
                                }
                            }
                        }
                    }
                }
            }
        }
        // (iii-a) every length up to the dense bound
        for (t, n) in dense_lengths(tier) {
            if !sh.mine() {
                continue;
            }
            let a = dense_value(n);
            for owned in [false, true] {
                if !f(C04Case::Not { a: Operand::canon(t, a.clone()), owned }) {
                    return;
                }
            }
            rot += 1;
            let c = C04Case::Bin { a: Operand::canon(t, a.clone()), b: Rhs::V(Operand::canon(if n % 3 == 0 { TID_D } else { TID_A }, Bits::ones(n + 1))), op: LOGIC[n % 3], form: FORMS[rot % 6] };
            if !f(c) {
                return;
            }
        }
        // (iii-b) thousands of bits
        for lt in [TID_D, TID_A, 18u8] {
            for rt in [TID_D, TID_A, 18u8, 9u8] {
                if !sh.mine() {
                    continue;
                }
                let lc = fixed_cap(lt).unwrap_or(usize::MAX);
                let rc = fixed_cap(rt).unwrap_or(usize::MAX);
                for n in LONG_LENS {
                    let n = n.min(lc);
                    for m in [n, n + 64, n / 2 + 7, 64usize] {
                        let m = m.min(rc);
                        for a in long_values(n) {
                            for b in [Bits::ones(m), long_values(m)[1].clone()] {
                                for op in LOGIC {
                                    rot += 1;
                                    let c = C04Case::Bin { a: Operand::canon(lt, a.clone()), b: Rhs::V(Operand::canon(rt, b.clone())), op, form: FORMS[rot % 6] };
                                    if !f(c) {
                                        return;
                                    }
                                }
                            }
                        }
                    }
                    for a in long_values(n) {
                        for prov in [Prov::Canon, Prov::Spare(200), Prov::Spare(4200)] {
                            for owned in [false, true] {
                                if !f(C04Case::Not { a: Operand { ty: lt, bits: a.clone(), prov: prov.clone() }, owned }) {
                                    return;
                                }
                            }
                        }
                    }
                }
            }
        }
        // (iv) not
        for t in 0..NT {
            if !sh.mine() {
                continue;
            }
            let c = fixed_cap(t).unwrap_or(lmax);
            for n in 0..=8usize.min(c) {
                for a in all_values(n) {
                    for owned in [false, true] {
                        if !f(C04Case::Not { a: Operand::canon(t, a.clone()), owned }) {
                            return;
                        }
                    }
                }
            }
            for n in 9..=c {
                for a in three_values(n) {
                    for owned in [false, true] {
                        if !f(C04Case::Not { a: Operand::canon(t, a.clone()), owned }) {
                            return;
                        }
                    }
                }
            }
        }
    }

    fn check(&self, case: &C04Case, st: &mut Stats) -> CheckResult {
        match case {
            C04Case::Bin { a, b, op, form } => {
                let what = format!("{}:{}:{}x{}", op_name(*op), shape_class(a, b), kind_of(a.ty), rhs_kind(b));
                let za = build_checked(a, "left")?;
                let rb = build_rhs_checked(b)?;
                let bbits = b.bits();
                let expected = model_bin(&a.bits, &bbits, *op).unwrap();
                let res = match apply_bin(&za, rb.as_ref(), *op, *form) {
                    Ok(r) => r,
                    Err(p) => fail!(format!("{}/panic", what), "{} {} {} ({:?}) panicked: {}", a.describe(), op.sym(), b.describe(), form, p),
                };
                ensure!(res.tid() == a.ty, format!("{}/type", what), "result type differs from LHS type");
                battery_z(&res, &expected, strength(st), &what).map_err(|mut v| {
                    v.msg = format!("{} {} {} ({:?}): {}", a.describe(), op.sym(), b.describe(), form, v.msg);
                    v
                })?;
                unchanged(&za, &a.bits, &what)?;
                if let BuiltRhs::V(zb) = &rb {
                    unchanged(zb, &bbits, &what)?;
                }
                check_aliased(&za, a, b, *op, &what, st)?;
                let n = a.len();
                let m = b.len();
                let rhs_high = m > n && (n..m).any(|i| bbits.at(i));
                let lhs_high = n > m && (m..n).any(|i| a.bits.at(i));
                st.class(shape_class(a, b));
                st.class(a.prov.class());
                st.class_if(rhs_high, "rhs has set bit at index >= n");
                st.class_if(n == 0 || m == 0, "empty operand");
                st.class(&format!("form:{:?}", form));
                st.note(case, expected != a.bits && (rhs_high || lhs_high));
                Ok(())
            }
            C04Case::Not { a, owned } => {
                let what = format!("not:{}:{}", if *owned { "owned" } else { "borrowed" }, kind_of(a.ty));
                let za = build_checked(a, "subject")?;
                let expected = Bits(a.bits.0.iter().map(|&x| !x).collect());
                let res = match catch(|| z_match!(&za, v => v.not_x(*owned).wrap())) {
                    Ok(r) => r,
                    Err(p) => fail!(format!("{}/panic", what), "!{} panicked: {}", a.describe(), p),
                };
                battery_z(&res, &expected, strength(st), &what).map_err(|mut v| {
                    v.msg = format!("!{}: {}", a.describe(), v.msg);
                    v
                })?;
                unchanged(&za, &a.bits, &what)?;
                let w = WORD_BITS[a.ty as usize];
                st.class(if *owned { "not owned" } else { "not borrowed" });
                st.class(a.prov.class());
                st.note(case, a.len() > 0 && a.len() % w != 0);
                Ok(())
            }
        }
    }
    fn assumptions(&self) -> Vec<String> {
        vec!["trusted bridge: zeros(n)+set(i) builds canonical operands, len()+get(i) reads results back".into()]
    }
}
