//! C09 - equality and ordering are numeric comparison of unsigned values across all types.

use super::c01::{arb_rel, related};
use super::common::*;
use crate::engine::*;
use crate::gen::*;
use crate::spec::*;
use crate::stats::Stats;
use crate::{ensure, fail};
use proptest::collection::vec;
use proptest::prelude::*;
use serde::{Deserialize, Serialize};
use std::cmp::Ordering;
use vcore::*;

#[derive(Clone, Debug, Hash, Serialize, Deserialize)]
pub enum C09Case {
    Pair { a: Operand, b: Operand },
    /// sort a list of same-type vectors with `sort()`
    Sort { ty: Tid, items: Vec<Bits> },
}

pub struct C09;

fn expect_cmp(c: &tab_cmp::CmpOut, o: Ordering) -> bool {
    c.eq == (o == Ordering::Equal)
        && c.ne == (o != Ordering::Equal)
        && c.lt == (o == Ordering::Less)
        && c.le == (o != Ordering::Greater)
        && c.gt == (o == Ordering::Greater)
        && c.ge == (o != Ordering::Less)
        && c.partial == Some(o)
}

/// Ord::cmp for two vectors of the same zoo type.
fn cmp_same(za: &Z, zb: &Z) -> Option<Ordering> {
    fn go<T: Subject>(a: &T, zb: &Z) -> Option<Ordering> {
        let b = T::from_z(zb.clone())?;
        Some(a.cmp(&b))
    }
    z_match!(za, a => go(a, zb))
}

/// The provided methods of `Ord` (an implementation may override them): max, min, clamp on two
/// vectors of the same zoo type; returns which operand each call returned (by bits and length).
fn ord_provided(za: &Z, zb: &Z) -> Option<(Bits, Bits, Bits)> {
    fn go<T: Subject + Ord>(a: &T, zb: &Z) -> Option<(Bits, Bits, Bits)> {
        let b = T::from_z(zb.clone())?;
        let mx = a.clone().max(b.clone());
        let mn = a.clone().min(b.clone());
        let (lo, hi) = if a <= &b { (a.clone(), b.clone()) } else { (b.clone(), a.clone()) };
        let cl = a.clone().clamp(lo, hi);
        Some((read_bits(&mx), read_bits(&mn), read_bits(&cl)))
    }
    z_match!(za, a => go(a, zb))
}

fn model_cmp(a: &Bits, b: &Bits) -> Ordering {
    // numeric comparison with zero extension, done on the lists (no bignum needed)
    let n = a.len().max(b.len());
    for i in (0..n).rev() {
        match (a.at(i), b.at(i)) {
            (true, false) => return Ordering::Greater,
            (false, true) => return Ordering::Less,
            _ => {}
        }
    }
    Ordering::Equal
}

impl Property for C09 {
    type Case = C09Case;
    fn id(&self) -> &'static str {
        "C09"
    }
    fn rule(&self) -> String {
        "Cases: ordered pairs (a,b) of operands of any two zoo types/lengths/provenances, with b related to a (independent, equal value at another length, a+-1, 2^m-a, exactly one bit flipped), and lists of same-type vectors to be sorted. Checked: ==,!=,<,<=,>,>=,partial_cmp in BOTH operand orders for the type pairing, Ord::cmp, max, min and clamp for same-type pairs, reflexivity of each operand, mutual consistency; sort() output non-decreasing by value and a permutation of the input. Enumerated: all (n,a,m,b) n,m<=4 (quick)/<=7 (thorough) x 20x20 pairings; long vectors: every length 321..2600 (thorough 8300), 1023..4097 bits on ten pairings, a one-bit difference placed in every 64-bit word in turn at lengths 2601..8300 (step 61; thorough 7), the 70 400-bit fixed type in seven pairings at 7 lengths, and a geometric ladder of lengths around every power of two from 2^14 to 2^21 (thorough 2^24) bits on Bvd/Bv (equal, one bit different at the bottom/middle/top, shorter operands). Oracle: numeric comparison of the zero-extended bit lists. Non-trivial: lengths differ, or values unequal but identical in their most significant non-zero storage word of the wider word type (decision falls to a lower word); equal values of different length are a counted class. Distinct by hash of the case.".into()
    }
    fn random_cases(&self, tier: Tier) -> u64 {
        tier.pick(300000, 9600000)
    }
    fn strategy(&self, tier: Tier) -> BoxedStrategy<C09Case> {
        let lmax = lmax_dyn(tier);
        let pair = (arb_operand(tier), arb_tid(), arb_len_sel(), arb_valpat(), arb_prov(), arb_rel()).prop_map(move |(a, bt, bls, bvp, bprov, rel)| {
            let m = realize_len(&bls, bt, lmax);
            let indep = realize_val(&bvp, m, WORD_BITS[bt as usize]);
            let bb = related(&a.bits, m, &rel, indep);
            C09Case::Pair { a, b: Operand { ty: bt, bits: bb, prov: bprov } }
        });
        let sort = (arb_tid(), vec((arb_len_sel(), arb_valpat(), any::<bool>()), 2..12)).prop_map(move |(ty, specs)| {
            let lmax = 150;
            let mut items: Vec<Bits> = Vec::new();
            for (ls, vp, dup) in specs {
                if dup && !items.is_empty() {
                    // same value as the previous item at another length when possible
                    let prev = items[items.len() - 1].clone();
                    let n = realize_len(&ls, ty, lmax).max(prev.significant());
                    items.push(prev.zext(n));
                } else {
                    let n = realize_len(&ls, ty, lmax);
                    items.push(realize_val(&vp, n, WORD_BITS[ty as usize]));
                }
            }
            C09Case::Sort { ty, items }
        });
        prop_oneof![9 => pair, 1 => sort].boxed()
    }
    fn exhaustive_subspaces(&self, tier: Tier) -> Vec<String> {
        vec![
            format!("all values of both operands for all lengths n,m<={} x 20x20 ordered type pairings (all comparison operators, both operand orders)", tier.pick(4, 7)),
            "Bv/Bvd/Bvf<u64,2> pairs: lengths {1,5,63,64,65,100,128}^2 x provenance {canonical, spare 64, spare 200, long-then-truncated}^2 x {equal, low bit differs, top bit differs} x 3 values".into(),
        ]
    }
    fn enumerate(&self, tier: Tier, sh: &mut Shard, f: &mut dyn FnMut(C09Case) -> bool) {
        let k = tier.pick(4, 7);
        for lt in ROUTINE_TIDS {
            for rt in ROUTINE_TIDS {
                for n in 0..=k {
                    if !sh.mine() {
                        continue;
                    }
                    for m in 0..=k {
                        for a in all_values(n) {
                            for b in all_values(m) {
                                if !f(C09Case::Pair { a: Operand::canon(lt, a.clone()), b: Operand::canon(rt, b.clone()) }) {
                                    return;
                                }
                            }
                        }
                    }
                }
            }
        }
        // same value held with different length / spare capacity / Bv storage mode, all orders
        for (lt, rt) in [(TID_A, TID_A), (TID_D, TID_D), (TID_A, TID_D), (TID_D, TID_A), (TID_A, 10u8), (10u8, TID_A)] {
            if !sh.mine() {
                continue;
            }
            let provs = [Prov::Canon, Prov::Spare(200), Prov::LongThenTrunc(200), Prov::Spare(64)];
            for n in [1usize, 5, 63, 64, 65, 100, 128] {
                for m in [1usize, 5, 63, 64, 65, 100, 128] {
                    for pa in &provs {
                        for pb in &provs {
                            let k = n.min(m);
                            for v in [Bits::ones(k), Bits::from_u128(1, k), realize_val(&ValPat::Alt(true), k, 8)] {
                                let a = v.zext(n);
                                let mut variants = vec![v.zext(m)];
                                let mut low = v.zext(m);
                                low.0[0] = !low.0[0];
                                variants.push(low);
                                let mut top = v.zext(m);
                                top.0[m - 1] = !top.0[m - 1];
                                variants.push(top);
                                for b in variants {
                                    let c = C09Case::Pair { a: Operand::fitted(lt, a.clone(), pa.clone()), b: Operand::fitted(rt, b, pb.clone()) };
                                    if !f(c) {
                                        return;
                                    }
                                }
                            }
                        }
                    }
                }
            }
        }
        // every length up to the dense bound
        for (t, n) in dense_lengths(tier) {
            if !sh.mine() {
                continue;
            }
            let a = dense_value(n);
            let mut b = a.clone();
            b.0[n / 3] = !b.0[n / 3];
            let mut c2 = a.clone();
            c2.0[n - 1] = !c2.0[n - 1];
            c2.0[0] = !c2.0[0];
            for other in [a.clone(), b, c2, a.zext(n - 65)] {
                if !f(C09Case::Pair { a: Operand::canon(t, a.clone()), b: Operand::canon(if n % 3 == 0 { TID_A } else { TID_D }, other) }) {
                    return;
                }
            }
        }
        // operands of thousands of bits and operands more than 1024 bits apart
        for (lt, rt) in [(TID_D, TID_D), (TID_A, TID_A), (TID_D, TID_A), (TID_A, TID_D), (TID_D, 10u8), (10u8, TID_D), (TID_A, 18u8), (18u8, TID_D), (TID_D, 0u8), (TID_A, 10u8)] {
            if !sh.mine() {
                continue;
            }
            let rc = fixed_cap(rt).unwrap_or(usize::MAX);
            let lc = fixed_cap(lt).unwrap_or(usize::MAX);
            for n in [1023usize, 1024, 1025, 1099, 1290, 1343, 2048, 2500, 4097] {
                let n = n.min(lc);
                let dense = realize_val(&ValPat::Dense(vec![0x9E37_79B9_7F4A_7C15, 0xD1B5_4A32_D192_ED03, 0x0123_4567_89AB_CDEF, 0xFEDC_BA98_7654_3210]), n, 64);
                let mut hot = Bits::zeros(n);
                hot.0[n - 1] = true;
                let mut hot_low = hot.clone();
                for (i, b) in Bits::from_u128(0xdead, 16).0.iter().enumerate() {
                    hot_low.0[i] = *b;
                }
                for a in [dense.clone(), hot.clone(), hot_low.clone(), Bits::ones(n)] {
                    for m in [n, n.saturating_sub(64), n.saturating_sub(9), 64usize, 16, 5] {
                        let m = m.min(rc).max(1);
                        let k = n.min(m);
                        let base = a.zext(k).zext(m);
                        let mut vs = vec![base.clone()];
                        let mut x = base.clone();
                        x.0[0] = !x.0[0];
                        vs.push(x);
                        let mut x = base.clone();
                        x.0[m - 1] = !x.0[m - 1];
                        vs.push(x.clone());
                        x.0[m / 2] = !x.0[m / 2];
                        x.0[0] = !x.0[0];
                        vs.push(x);
                        vs.push(Bits::from_u128(5, m));
                        vs.push(Bits::from_u128(0xdead, m));
                        for b in vs {
                            let c = C09Case::Pair { a: Operand::canon(lt, a.clone()), b: Operand::canon(rt, b) };
                            if !f(c) {
                                return;
                            }
                        }
                    }
                }
            }
        }
        // the 70 400-bit fixed type against itself and the unbounded types, and a geometric ladder
        // of lengths up to megabits on the unbounded types: equal values, a difference in the
        // lowest / a middle / the top bit, a shorter and a much shorter operand
        let mut long: Vec<(Tid, Tid, usize)> = vec![];
        for (lt, rt) in HUGE_PAIRS {
            for n in HUGE_TYPE_LENS {
                long.push((lt, rt, n.min(fixed_cap(lt).unwrap_or(usize::MAX))));
            }
        }
        for (t, n) in ladder_lengths(tier) {
            long.push((t, if n % 2 == 0 { TID_D } else { TID_A }, n));
        }
        for (lt, rt, n) in long {
            if !sh.mine() {
                continue;
            }
            let rc = fixed_cap(rt).unwrap_or(usize::MAX);
            let mut a = dense_value(n);
            a.0[n - 1] = true;
            for m in [n, n - 1, n.saturating_sub(67), 4100usize, 5] {
                let m = m.min(rc).min(n).max(1);
                let base = a.zext(m);
                let mut vs = vec![base.clone()];
                for i in [0usize, m / 2, m - 1] {
                    let mut x = base.clone();
                    x.0[i] = !x.0[i];
                    vs.push(x);
                }
                for b in vs {
                    if !f(C09Case::Pair { a: Operand::canon(lt, a.clone()), b: Operand::canon(rt, b) }) {
                        return;
                    }
                }
            }
        }
        // a difference confined to ONE 64-bit word, for every word of the vector: lengths from
        // 2601 to 8300 bits (step 61 in the quick tier, 7 in the thorough tier) - a comparison
        // that walks the words in blocks must look at every one of them
        for n in (2601..=8300usize).step_by(tier.pick(61, 7)) {
            if !sh.mine() {
                continue;
            }
            let (lt, rt) = [(TID_D, TID_D), (TID_A, TID_A), (TID_D, TID_A), (TID_A, TID_D)][n % 4];
            let a = dense_value(n);
            for w in 0..(n + 63) / 64 {
                let i = (w * 64 + (n + w) % 64).min(n - 1);
                let mut b = a.clone();
                b.0[i] = !b.0[i];
                if !f(C09Case::Pair { a: Operand::canon(lt, a.clone()), b: Operand::canon(rt, b) }) {
                    return;
                }
            }
        }
        // word-boundary lattice: values that agree in the top word and differ below, for every pairing
        for lt in ROUTINE_TIDS {
            for rt in ROUTINE_TIDS {
                if !sh.mine() {
                    continue;
                }
                let lc = fixed_cap(lt).unwrap_or(200);
                let rc = fixed_cap(rt).unwrap_or(200);
                for &n in &[lc, lc.saturating_sub(1), lc / 2 + 1] {
                    for &m in &[rc, rc.saturating_sub(3), rc / 2] {
                        let top = n.min(m);
                        if top == 0 {
                            continue;
                        }
                        for flip in [0usize, top / 2, top - 1] {
                            let a = Bits::ones(n).zext(n);
                            let mut b = Bits::ones(top).zext(m);
                            b.0[flip] = !b.0[flip];
                            if !f(C09Case::Pair { a: Operand::canon(lt, a.clone()), b: Operand::canon(rt, b) }) {
                                return;
                            }
                            let b2 = Bits::ones(top).zext(m);
                            if !f(C09Case::Pair { a: Operand::canon(lt, Bits::ones(top).zext(n)), b: Operand::canon(rt, b2) }) {
                                return;
                            }
                        }
                    }
                }
            }
        }
    }
    fn check(&self, case: &C09Case, st: &mut Stats) -> CheckResult {
        match case {
            C09Case::Pair { a, b } => {
                let what = format!("cmp:{}x{}", kind_of(a.ty), kind_of(b.ty));
                let za = build_checked(a, "left")?;
                let zb = build_checked(b, "right")?;
                let o = model_cmp(&a.bits, &b.bits);
                let r = catch(|| (tab_cmp::compare(&za, &zb), tab_cmp::compare(&zb, &za), tab_cmp::compare(&za, &za), tab_cmp::compare(&zb, &zb)));
                let (ab, ba, aa, bb) = match r {
                    Ok(x) => x,
                    Err(p) => fail!(format!("{}/panic", what), "comparing {} with {} panicked: {}", a.describe(), b.describe(), p),
                };
                ensure!(expect_cmp(&ab, o), format!("{}/wrong", what), "{} vs {}: numeric order is {:?} but operators give {:?} (raw {} / {})", a.describe(), b.describe(), o, ab, za.raw(), zb.raw());
                ensure!(expect_cmp(&ba, o.reverse()), format!("{}/wrong-reversed", what), "{} vs {} (operands swapped): numeric order is {:?} but operators give {:?}", b.describe(), a.describe(), o.reverse(), ba);
                ensure!(expect_cmp(&aa, Ordering::Equal) && expect_cmp(&bb, Ordering::Equal), format!("{}/reflexive", what), "comparison of a vector with itself is not Equal: {:?} / {:?}", aa, bb);
                if a.ty == b.ty {
                    let c = cmp_same(&za, &zb);
                    ensure!(c == Some(o), format!("{}/ord-cmp", what), "{}.cmp({}) = {:?}, numeric order {:?}", a.describe(), b.describe(), c, o);
                    let c2 = cmp_same(&zb, &za);
                    ensure!(c2 == Some(o.reverse()), format!("{}/ord-cmp", what), "{}.cmp({}) = {:?}, numeric order {:?}", b.describe(), a.describe(), c2, o.reverse());
                    // max / min / clamp, compared numerically (which of two equal-valued operands of
                    // different length is returned is not part of the property)
                    match catch(|| ord_provided(&za, &zb)) {
                        Ok(Some((mx, mn, cl))) => {
                            let (emx, emn) = match o {
                                Ordering::Greater => (&a.bits, &b.bits),
                                Ordering::Less => (&b.bits, &a.bits),
                                Ordering::Equal => (&b.bits, &a.bits),
                            };
                            ensure!(model_cmp(&mx, emx) == Ordering::Equal, format!("{}/ord-max", what), "max({}, {}) returned {}", a.describe(), b.describe(), short(&mx));
                            ensure!(model_cmp(&mn, emn) == Ordering::Equal, format!("{}/ord-min", what), "min({}, {}) returned {}", a.describe(), b.describe(), short(&mn));
                            ensure!(model_cmp(&cl, &a.bits) == Ordering::Equal, format!("{}/ord-clamp", what), "{}.clamp(min, max) of the pair with {} returned {}", a.describe(), b.describe(), short(&cl));
                        }
                        Ok(None) => {}
                        Err(p) => fail!(format!("{}/ord-provided-panic", what), "max/min/clamp of {} and {} panicked: {}", a.describe(), b.describe(), p),
                    }
                }
                let wide = WORD_BITS[a.ty as usize].max(WORD_BITS[b.ty as usize]);
                let sa = a.bits.significant();
                let sb = b.bits.significant();
                let same_top_word = o != Ordering::Equal && sa == sb && sa > 0 && {
                    let lo = ((sa - 1) / wide) * wide;
                    (lo..sa).all(|i| a.bits.at(i) == b.bits.at(i))
                };
                st.class(&format!("{}x{}", kind_of(a.ty), kind_of(b.ty)));
                st.class(a.prov.class());
                st.class_if(o == Ordering::Equal && a.len() != b.len(), "equal values of different length");
                st.class_if(o == Ordering::Equal, "equal");
                st.class_if(same_top_word, "decision falls to a lower word");
                st.class_if(a.len() == 0 || b.len() == 0, "empty operand");
                st.note(case, a.len() != b.len() || same_top_word);
                Ok(())
            }
            C09Case::Sort { ty, items } => {
                let what = format!("sort:{}", kind_of(*ty));
                let out = catch(|| {
                    tid_match!(*ty, T => {
                        let mut v: Vec<T> = items.iter().map(|b| build_canon::<T>(b)).collect();
                        v.sort();
                        v.iter().map(|x| read_bits(x)).collect::<Vec<Bits>>()
                    })
                });
                let sorted = match out {
                    Ok(s) => s,
                    Err(p) => fail!(format!("{}/panic", what), "sorting panicked: {}", p),
                };
                for w in sorted.windows(2) {
                    ensure!(model_cmp(&w[0], &w[1]) != Ordering::Greater, format!("{}/order", what), "sort() output is not non-decreasing by value: {} before {}", short(&w[0]), short(&w[1]));
                }
                let mut x = items.clone();
                let mut y = sorted.clone();
                x.sort();
                y.sort();
                ensure!(x == y, format!("{}/permutation", what), "sort() output is not a permutation of its input");
                st.class("sort");
                let distinct_lens = items.iter().map(|b| b.len()).collect::<std::collections::BTreeSet<_>>().len();
                st.note(case, items.len() >= 3 && distinct_lens >= 2);
                Ok(())
            }
        }
    }
}
