//! C08 - slicing and splitting partition the bits without loss or reordering.

use super::common::*;
use crate::battery::battery_z;
use crate::engine::*;
use crate::gen::*;
use crate::spec::*;
use crate::stats::Stats;
use crate::{ensure, fail};
use proptest::prelude::*;
use serde::{Deserialize, Serialize};
use vcore::*;

#[derive(Clone, Debug, Hash, Serialize, Deserialize)]
pub enum C08Case {
    /// copy_range(s..e), s <= e <= len
    CopyRange { a: Operand, s: usize, e: usize },
    /// split_off(i) (in place) when `consume` is false, split(i) (by value) otherwise; i <= len
    Split { a: Operand, i: usize, consume: bool },
    FirstLast { a: Operand },
    /// A vector longer than 2^31 / 2^32 bits (half a gigabyte of lazily mapped zero pages), given
    /// by its length and the positions of its few set bits; only operations whose cost does not
    /// depend on the length: first/last/get at the top, a short copy_range window, split_off of a
    /// short tail. `heap_bv`: a `Bv` instead of a `Bvd`.
    Giant { len: usize, ones: Vec<usize>, kind: GiantKind, heap_bv: bool },
}

#[derive(Clone, Debug, Hash, Serialize, Deserialize)]
pub enum GiantKind {
    FirstLast,
    /// copy_range(s..e), e - s <= 8192
    Window { s: usize, e: usize },
    /// split_off(i), len - i <= 8192
    Tail { i: usize },
}

fn giant_check<T: Subject>(len: usize, ones: &[usize], kind: &GiantKind) -> Result<bool, Violation> {
    if !super::giant::giant_available(len) {
        return Ok(false);
    }
    let bit_at = |i: usize| ones.contains(&i);
    let window = |s: usize, e: usize| Bits((s..e).map(bit_at).collect());
    let r: Result<Result<(), Violation>, String> = catch(|| {
        let mut v = T::zeros(len);
        for &p in ones {
            v.set(p, bit(true));
        }
        ensure!(v.len() == len, "giant/len", "zeros({}) has length {}", len, v.len());
        match kind {
            GiantKind::FirstLast => {
                let (fi, la) = (v.first().map(unbit), v.last().map(unbit));
                ensure!(fi == Some(bit_at(0)), "giant/first", "first() of a {}-bit vector = {:?}, bit 0 is {}", len, fi, bit_at(0));
                ensure!(la == Some(bit_at(len - 1)), "giant/last", "last() of a {}-bit vector = {:?}, bit {} is {}", len, la, len - 1, bit_at(len - 1));
                for &p in ones {
                    ensure!(unbit(v.get(p)), "giant/get", "get({}) of a {}-bit vector is Zero after set", p, len);
                    if p + 1 < len && !bit_at(p + 1) {
                        ensure!(!unbit(v.get(p + 1)), "giant/get", "get({}) of a {}-bit vector is One", p + 1, len);
                    }
                }
                Ok(())
            }
            GiantKind::Window { s, e } => {
                let w = v.copy_range(*s..*e);
                crate::battery::battery(&w, &window(*s, *e), crate::battery::Strength::Light, "giant/copy_range").map_err(|mut x| {
                    x.msg = format!("copy_range({}..{}) of a {}-bit vector with ones at {:?}: {}", s, e, len, ones, x.msg);
                    x
                })
            }
            GiantKind::Tail { i } => {
                let t = v.split_off(*i);
                crate::battery::battery(&t, &window(*i, len), crate::battery::Strength::Light, "giant/split_off").map_err(|mut x| {
                    x.msg = format!("split_off({}) of a {}-bit vector with ones at {:?}: high part: {}", i, len, ones, x.msg);
                    x
                })?;
                ensure!(v.len() == *i, "giant/split_off-low-len", "after split_off({}) the low part has length {}", i, v.len());
                if *i > 0 {
                    let la = v.last().map(unbit);
                    ensure!(la == Some(bit_at(*i - 1)), "giant/split_off-low-last", "after split_off({}) of a {}-bit vector last() = {:?}, bit {} is {}", i, len, la, i - 1, bit_at(i - 1));
                }
                Ok(())
            }
        }
    });
    match r {
        Ok(Ok(())) => Ok(true),
        Ok(Err(v)) => Err(v),
        Err(p) => Err(Violation { sig: "giant/panic".into(), msg: format!("{:?} on a {}-bit vector with ones at {:?} panicked: {}", kind, len, ones, p) }),
    }
}

pub struct C08;

impl Property for C08 {
    type Case = C08Case;
    fn id(&self) -> &'static str {
        "C08"
    }
    fn rule(&self) -> String {
        "Cases: copy_range(s..e) with s<=e<=len; split_off(i)/split(i) with i<=len; first()/last(); subject of any zoo type/length/provenance (for Bv: inline and heap-mode sources via the long-then-truncated and spare-capacity provenances). Giant vectors (2^31+69 and 2^32+77 bits, Bvd and heap Bv, a few set bits): first/last/get at the top, short copy_range windows (also across bit 2^32) and split_off of short tails. Long vectors: every length 321..2600 (thorough 8300), 1343..8200 bits on Bvd/Bv, the 70 400-bit fixed type at 7 lengths and a geometric ladder of lengths around every power of two from 2^14 to 2^21 (thorough 2^24) bits, each with 13 split points and windows around word, 4096-bit and 2^16 boundaries. Enumerated: every (s,e) for n<=40 (quick)/200 (thorough) with three value classes on all 20 types (includes s=e and e=n); all values for n<=8 with every (s,e); every split point for every n<=min(C,140)/320. Oracle: list slice; result passes the observer battery; source unchanged (battery); appending the high part to the low part rebuilds the original. Non-trivial: copy_range with 0<s, e<n, s not word-aligned and the slice crossing a storage-word boundary; split with 0<i<n not word aligned. Distinct by hash of the case.".into()
    }
    fn random_cases(&self, tier: Tier) -> u64 {
        tier.pick(200000, 6400000)
    }
    fn strategy(&self, tier: Tier) -> BoxedStrategy<C08Case> {
        let cr = (arb_operand(tier), any::<u16>(), any::<u16>()).prop_map(|(a, f1, f2)| {
            let n = a.len();
            let x = frac(f1, n + 1);
            let y = frac(f2, n + 1);
            C08Case::CopyRange { a, s: x.min(y), e: x.max(y) }
        });
        let sp = (arb_operand(tier), any::<u16>(), any::<bool>()).prop_map(|(a, f, consume)| {
            let i = frac(f, a.len() + 1);
            C08Case::Split { a, i, consume }
        });
        let fl = arb_operand(tier).prop_map(|a| C08Case::FirstLast { a });
        prop_oneof![6 => cr, 4 => sp, 1 => fl].boxed()
    }
    fn exhaustive_subspaces(&self, tier: Tier) -> Vec<String> {
        vec![
            format!("every (s,e), s<=e<=n, for every n<={} (clipped to capacity) x three value classes x 20 types", tier.pick(40, 200)),
            "all values for n<=8 x every (s,e) x 20 types".into(),
            format!("every split point i<=n for every n<=min(capacity,{}) x three value classes x split_off/split x 20 types", tier.pick(140, 320)),
        ]
    }
    fn enumerate(&self, tier: Tier, sh: &mut Shard, f: &mut dyn FnMut(C08Case) -> bool) {
        let nmax = tier.pick(40, 200);
        for t in ROUTINE_TIDS {
            let c = fixed_cap(t).unwrap_or(nmax).min(nmax);
            for n in 0..=c {
                if !sh.mine() {
                    continue;
                }
                let vals: Vec<Bits> = if n <= 8 { all_values(n).collect() } else { three_values(n).to_vec() };
                for a in &vals {
                    for s in 0..=n {
                        for e in s..=n {
                            if !f(C08Case::CopyRange { a: Operand::canon(t, a.clone()), s, e }) {
                                return;
                            }
                        }
                    }
                }
            }
        }
        for (t, n) in dense_lengths(tier) {
            if !sh.mine() {
                continue;
            }
            let a = dense_value(n);
            for i in [1usize, n / 2, n - 1] {
                if !f(C08Case::Split { a: Operand::canon(t, a.clone()), i, consume: n % 4 < 2 }) {
                    return;
                }
            }
            if !f(C08Case::CopyRange { a: Operand::canon(t, a.clone()), s: 1, e: n - 1 }) {
                return;
            }
        }
        for t in [TID_D, TID_A] {
            for n in [1343usize, 4096, 4097, 5000, 8200] {
                if !sh.mine() {
                    continue;
                }
                for a in [Bits::ones(n), realize_val(&ValPat::Dense(vec![0x9E37_79B9_7F4A_7C15, 0xD1B5_4A32_D192_ED03, 0x0123_4567_89AB_CDEF]), n, 64)] {
                    for i in [0usize, 1, 5, 7, 17, 63, 64, 65, 1000, n / 2, n - 65, n - 64, n - 63, n - 1, n] {
                        for consume in [false, true] {
                            if !f(C08Case::Split { a: Operand::canon(t, a.clone()), i, consume }) {
                                return;
                            }
                        }
                        for e in [i, (i + 1).min(n), (i + 64).min(n), (i + 4096).min(n), n] {
                            if !f(C08Case::CopyRange { a: Operand::canon(t, a.clone()), s: i, e }) {
                                return;
                            }
                        }
                    }
                }
            }
        }
        // the 70 400-bit fixed type (t = TID_HUGE) and a geometric ladder of lengths up to megabits
        // on the unbounded types: split points and windows around word, 4096-bit and 2^16 boundaries
        let mut long: Vec<(Tid, usize)> = HUGE_TYPE_LENS.iter().map(|&n| (TID_HUGE, n)).collect();
        long.extend(ladder_lengths(tier));
        for (t, n) in long {
            if !sh.mine() {
                continue;
            }
            let a = dense_value(n);
            for (j, i) in [0usize, 1, 63, 64, 65, 4099, 65535, 65536, 65541, n / 2 + 3, n.saturating_sub(65), n - 1, n].into_iter().enumerate() {
                if i > n {
                    continue;
                }
                if !f(C08Case::Split { a: Operand::canon(t, a.clone()), i, consume: (j + n) % 2 == 0 }) {
                    return;
                }
                for e in [(i + 1).min(n), (i + 4097).min(n), (i + 65537).min(n), n] {
                    if (e + j) % 2 == 0 && !f(C08Case::CopyRange { a: Operand::canon(t, a.clone()), s: i, e }) {
                        return;
                    }
                }
            }
            let mut top = Bits::zeros(n);
            top.0[n - 1] = true;
            for v in [a.clone(), top] {
                if !f(C08Case::FirstLast { a: Operand::canon(t, v) }) {
                    return;
                }
            }
        }
        // beyond 2^31 and 2^32 bits: lengths and indices that no longer fit 31 / 32 bits
        for len in [(1usize << 31) + 69, (1usize << 32) + 77] {
            for heap_bv in [false, true] {
                if !sh.mine() {
                    continue;
                }
                let top = len - 1;
                // (the index of the top bit reduced modulo 2^31 / 2^32 is a set bit in the list whose top
                // bit is clear, and a clear bit in the list whose top bit is set)
                let low = top & ((1usize << 31) - 1);
                let mut second = vec![0, low, top & 0xFFFF_FFFF, (1 << 31) + 3, top - 3, top - 70, top - 4100];
                second.retain(|&p| p != top);
                second.sort();
                second.dedup();
                let lists: Vec<Vec<usize>> = vec![vec![top, 5], second];
                for ones in lists {
                    let mut kinds = vec![GiantKind::FirstLast, GiantKind::Tail { i: len - 71 }, GiantKind::Window { s: len - 4200, e: len }, GiantKind::Window { s: 70, e: 150 }];
                    if len > (1 << 32) {
                        kinds.push(GiantKind::Window { s: (1 << 32) - 70, e: (1 << 32) + 70 });
                        kinds.push(GiantKind::Tail { i: (1 << 32) + 5 });
                    }
                    for kind in kinds {
                        if !f(C08Case::Giant { len, ones: ones.clone(), kind, heap_bv }) {
                            return;
                        }
                    }
                }
            }
        }
        let smax = tier.pick(140, 320);
        for t in ROUTINE_TIDS {
            let c = fixed_cap(t).unwrap_or(smax).min(smax);
            for n in 0..=c {
                if !sh.mine() {
                    continue;
                }
                for a in three_values(n) {
                    for i in 0..=n {
                        for consume in [false, true] {
                            if !f(C08Case::Split { a: Operand::canon(t, a.clone()), i, consume }) {
                                return;
                            }
                        }
                    }
                    if !f(C08Case::FirstLast { a: Operand::canon(t, a.clone()) }) {
                        return;
                    }
                }
            }
        }
    }
    fn check(&self, case: &C08Case, st: &mut Stats) -> CheckResult {
        match case {
            C08Case::CopyRange { a, s, e } => {
                let n = a.len();
                ensure!(s <= e && *e <= n, "bad-case", "copy_range arguments outside the property's domain");
                let what = format!("copy_range:{}", kind_of(a.ty));
                let za = build_checked(a, "source")?;
                let exp = Bits(a.bits.0[*s..*e].to_vec());
                let r = match catch(|| z_match!(&za, v => v.copy_range(*s..*e).wrap())) {
                    Ok(r) => r,
                    Err(p) => fail!(format!("{}/panic", what), "{}.copy_range({}..{}) panicked: {}", a.describe(), s, e, p),
                };
                battery_z(&r, &exp, strength(st), &what).map_err(|mut v| {
                    v.msg = format!("{}.copy_range({}..{}): {}", a.describe(), s, e, v.msg);
                    v
                })?;
                battery_z(&za, &a.bits, crate::battery::Strength::Light, &format!("{}/source", what)).map_err(|mut v| {
                    v.msg = format!("{}.copy_range({}..{}) changed its source: {}", a.describe(), s, e, v.msg);
                    v
                })?;
                let w = WORD_BITS[a.ty as usize];
                st.class("copy_range");
                st.class(a.prov.class());
                st.class_if(s == e, "empty slice");
                st.class_if(*e == n, "slice ends at len");
                if let Some(h) = z_match!(&za, v => v.is_heap()) {
                    st.class(if h { "Bv source on heap" } else { "Bv source inline" });
                    if let Some(h2) = z_match!(&r, v => v.is_heap()) {
                        st.class_if(h && !h2, "Bv heap source -> inline slice");
                    }
                }
                st.note(case, *s > 0 && *e < n && s % w != 0 && (*s / w != (*e - 1) / w));
                Ok(())
            }
            C08Case::Split { a, i, consume } => {
                let n = a.len();
                ensure!(*i <= n, "bad-case", "split index outside the property's domain");
                let what = format!("{}:{}", if *consume { "split" } else { "split_off" }, kind_of(a.ty));
                let za = build_checked(a, "subject")?;
                let lo_e = Bits(a.bits.0[..*i].to_vec());
                let hi_e = Bits(a.bits.0[*i..].to_vec());
                let out = catch(|| {
                    z_match!(za.clone(), v => if *consume {
                        let (hi, lo) = v.split(*i);
                        (hi.wrap(), lo.wrap())
                    } else {
                        let mut v = v;
                        let hi = v.split_off(*i);
                        (hi.wrap(), v.wrap())
                    })
                });
                let (hi, mut lo) = match out {
                    Ok(x) => x,
                    Err(p) => fail!(format!("{}/panic", what), "{}.{}({}) panicked: {}", a.describe(), what, i, p),
                };
                battery_z(&lo, &lo_e, strength(st), &format!("{}/low", what)).map_err(|mut v| {
                    v.msg = format!("{} split at {}: low part: {}", a.describe(), i, v.msg);
                    v
                })?;
                battery_z(&hi, &hi_e, strength(st), &format!("{}/high", what)).map_err(|mut v| {
                    v.msg = format!("{} split at {}: high part: {}", a.describe(), i, v.msg);
                    v
                })?;
                // low.append(high) rebuilds the original
                if let Err(p) = catch(|| z_match!(&mut lo, l => z_match!(&hi, h => l.append(h)))) {
                    fail!(format!("{}/reassemble-panic", what), "{} split at {}: low.append(high) panicked: {}", a.describe(), i, p);
                }
                battery_z(&lo, &a.bits, strength(st), &format!("{}/reassembled", what)).map_err(|mut v| {
                    v.msg = format!("{} split at {}: low.append(high) does not rebuild the original: {}", a.describe(), i, v.msg);
                    v
                })?;
                let w = WORD_BITS[a.ty as usize];
                st.class(if *consume { "split" } else { "split_off" });
                st.class(a.prov.class());
                st.class_if(*i == 0 || *i == n, "split at an end");
                st.note(case, *i > 0 && *i < n && i % w != 0);
                Ok(())
            }
            C08Case::Giant { len, ones, kind, heap_bv } => {
                ensure!(*len > 8192 && ones.iter().all(|p| p < len), "bad-case", "giant case with a set bit beyond the length");
                match kind {
                    GiantKind::Window { s, e } => ensure!(s <= e && e <= len && e - s <= 8192, "bad-case", "giant window too wide"),
                    GiantKind::Tail { i } => ensure!(i <= len && len - i <= 8192, "bad-case", "giant tail too long"),
                    GiantKind::FirstLast => {}
                }
                let ran = if *heap_bv { giant_check::<Bv>(*len, ones, kind)? } else { giant_check::<Bvd>(*len, ones, kind)? };
                st.class(if ran { "giant vector (> 2^31 bits)" } else { "giant vector skipped: address space not available" });
                st.note(case, ran);
                Ok(())
            }
            C08Case::FirstLast { a } => {
                let za = build_checked(a, "subject")?;
                let (fi, la) = z_match!(&za, v => (v.first().map(unbit), v.last().map(unbit)));
                ensure!(fi == a.bits.0.first().copied(), "first", "{}.first() = {:?}", a.describe(), fi);
                ensure!(la == a.bits.0.last().copied(), "last", "{}.last() = {:?}", a.describe(), la);
                st.class("first/last");
                st.note(case, a.len() > 1 && a.bits.0[0] != a.bits.0[a.len() - 1]);
                Ok(())
            }
        }
    }
}
