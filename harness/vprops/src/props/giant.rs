//! Vectors longer than 2^31 / 2^32 bits (half a gigabyte of mostly untouched zero pages) described
//! by their length and the positions of their few set bits. Lengths, indices and counts that no
//! longer fit 31 / 32 bits only occur here. Used by C08 (constant-cost operations), C16 (the count
//! queries: one pass over 2^26 words) and C11 (conversion to a native integer).

use serde::{Deserialize, Serialize};
use vcore::*;

#[derive(Clone, Debug, Hash, PartialEq, Eq, Serialize, Deserialize)]
pub struct GiantSpec {
    pub len: usize,
    /// positions of the set bits, all < len
    pub ones: Vec<usize>,
    /// a `Bv` (heap mode) instead of a `Bvd`
    pub heap_bv: bool,
}

pub const GIANT_LENS: [usize; 2] = [(1usize << 31) + 69, (1usize << 32) + 77];

impl GiantSpec {
    pub fn valid(&self) -> bool {
        self.len > 8192 && self.ones.iter().all(|&p| p < self.len)
    }
    pub fn bit(&self, i: usize) -> bool {
        self.ones.contains(&i)
    }
    pub fn window(&self, s: usize, e: usize) -> Bits {
        Bits((s..e).map(|i| self.bit(i)).collect())
    }
    pub fn max_one(&self) -> Option<usize> {
        self.ones.iter().copied().max()
    }
    pub fn min_one(&self) -> Option<usize> {
        self.ones.iter().copied().min()
    }
    pub fn significant(&self) -> usize {
        self.max_one().map_or(0, |m| m + 1)
    }
    pub fn leading_zeros(&self) -> usize {
        self.len - self.significant()
    }
    pub fn trailing_zeros(&self) -> usize {
        self.min_one().unwrap_or(self.len)
    }
    pub fn trailing_ones(&self) -> usize {
        (0..self.len).take_while(|&i| self.bit(i)).count()
    }
    pub fn leading_ones(&self) -> usize {
        (0..self.len).rev().take_while(|&i| self.bit(i)).count()
    }
    /// The value, if it fits 128 bits.
    pub fn low_u128(&self) -> Option<u128> {
        if self.significant() > 128 {
            return None;
        }
        Some(self.ones.iter().fold(0u128, |v, &p| v | (1u128 << p)))
    }
    pub fn build<T: BitVector>(&self) -> T {
        let mut v = T::zeros(self.len);
        for &p in &self.ones {
            v.set(p, bit(true));
        }
        v
    }
}

/// Can a vector of `len` bits be built here? (Address space can be reserved and at least 6 GiB
/// of memory are available: some operations write to the pages, several shards may hold a giant
/// at the same time.) A `false` is counted as a skipped case, never as a violation.
pub fn giant_available(len: usize) -> bool {
    let mut probe: Vec<u64> = Vec::new();
    if probe.try_reserve_exact(len / 64 + 1).is_err() {
        return false;
    }
    drop(probe);
    if let Ok(mi) = std::fs::read_to_string("/proc/meminfo") {
        let avail_kb = mi.lines().find(|l| l.starts_with("MemAvailable:")).and_then(|l| l.split_whitespace().nth(1)).and_then(|x| x.parse::<u64>().ok());
        if let Some(kb) = avail_kb {
            if kb < 6 * 1024 * 1024 {
                return false;
            }
        }
    }
    true
}

/// The bit lists used by the enumerations for a given giant length: the top bit set / clear, with
/// the index of the top bit reduced modulo 2^31 and 2^32 set exactly in the list whose top bit is
/// clear; a small value; nothing set.
pub fn giant_lists(len: usize) -> Vec<Vec<usize>> {
    let top = len - 1;
    let low = top & ((1usize << 31) - 1);
    let mut second = vec![0, low, top & 0xFFFF_FFFF, (1 << 31) + 3, top - 3, top - 70, top - 4100];
    second.retain(|&p| p != top);
    second.sort();
    second.dedup();
    vec![vec![top, 5], second, vec![0, 3, 5, 62], vec![]]
}
