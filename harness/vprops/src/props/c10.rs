//! C10 - equal vectors hash equally (Hash is consistent with Eq).

use super::common::*;
use crate::battery::hash_stream;
use crate::engine::*;
use crate::gen::*;
use crate::spec::*;
use crate::stats::Stats;
use crate::{ensure, fail};
use proptest::prelude::*;
use serde::{Deserialize, Serialize};
use std::collections::hash_map::DefaultHasher;
use std::collections::HashSet;
use std::hash::{Hash, Hasher};
use vcore::*;

/// Two representations of the same value within one type. `x.ty == y.ty`, and the bits agree
/// after zero extension (by construction in the generators; re-checked on the model).
#[derive(Clone, Debug, Hash, Serialize, Deserialize)]
pub struct C10Case {
    pub x: Operand,
    pub y: Operand,
}

pub struct C10;

fn probe<T: Subject>(x: &T, zy: &Z) -> Result<(bool, bool, bool, bool), String> {
    let y = T::from_z(zy.clone()).ok_or("type mismatch")?;
    let eq = x == &y && &y == x;
    let stream = hash_stream(x) == hash_stream(&y);
    let mut h1 = DefaultHasher::new();
    x.hash(&mut h1);
    let mut h2 = DefaultHasher::new();
    y.hash(&mut h2);
    // slices and tuples of vectors (Vec<T>::hash goes through the provided Hash::hash_slice)
    let mut h3 = DefaultHasher::new();
    vec![x.clone(), x.clone()].hash(&mut h3);
    (x.clone(), 7u8).hash(&mut h3);
    let mut h4 = DefaultHasher::new();
    vec![y.clone(), x.clone()].hash(&mut h4);
    (y.clone(), 7u8).hash(&mut h4);
    let def = h1.finish() == h2.finish() && h3.finish() == h4.finish();
    let mut set: HashSet<T> = HashSet::new();
    set.insert(x.clone());
    let found = set.contains(&y);
    Ok((eq, stream, def, found))
}

impl Property for C10 {
    type Case = C10Case;
    fn id(&self) -> &'static str {
        "C10"
    }
    fn rule(&self) -> String {
        "Cases: two representations x,y of one numeric value within one zoo type: different lengths >= the significant bits, different provenance (spare capacity, long-then-truncated, heap-mode vs inline Bv, produced by an operation). Checked: the premise x==y is itself confirmed against the model (values equal) and on the implementation; then the byte stream fed to a recording Hasher is identical, std DefaultHasher outputs are equal (for the vectors themselves and inside a Vec and a tuple, i.e. through the provided Hash::hash_slice), and a HashSet holding x contains y. Enumerated: all values n<=8 x all length pairs <=12 per type; for every n1<=min(C,320) the partner lengths {n1+1, next word boundary, boundary+1, C} with three value classes. Non-trivial: the two representations differ in length, provenance, capacity or Bv storage mode. Distinct by hash of the case.".into()
    }
    fn random_cases(&self, tier: Tier) -> u64 {
        tier.pick(300000, 9600000)
    }
    fn strategy(&self, tier: Tier) -> BoxedStrategy<C10Case> {
        let lmax = lmax_dyn(tier);
        (arb_operand(tier), arb_len_sel(), arb_prov()).prop_map(move |(x, ls, yprov)| {
            let sig = x.bits.significant();
            let m = realize_len(&ls, x.ty, lmax).max(sig);
            let y = Operand { ty: x.ty, bits: x.bits.zext(m), prov: yprov };
            C10Case { x, y }
        }).boxed()
    }
    fn exhaustive_subspaces(&self, _tier: Tier) -> Vec<String> {
        vec!["all values with n<=8 x every partner length <=12 (>= significant bits) x 20 types".into()]
    }
    fn enumerate(&self, tier: Tier, sh: &mut Shard, f: &mut dyn FnMut(C10Case) -> bool) {
        for t in ROUTINE_TIDS {
            let c = fixed_cap(t).unwrap_or(usize::MAX);
            for n in 0..=8usize.min(c) {
                if !sh.mine() {
                    continue;
                }
                for a in all_values(n) {
                    for m in a.significant()..=12usize.min(c) {
                        if !f(C10Case { x: Operand::canon(t, a.clone()), y: Operand::canon(t, a.zext(m)) }) {
                            return;
                        }
                    }
                }
            }
        }
        for (t, n) in dense_lengths(tier) {
            if !sh.mine() {
                continue;
            }
            let a = dense_value(n);
            for (m, yprov) in [(n + 1, Prov::Canon), (n + 64, Prov::Spare(200)), (n, Prov::LongThenTrunc(130))] {
                if !f(C10Case { x: Operand::canon(t, a.clone()), y: Operand { ty: t, bits: a.zext(m), prov: yprov } }) {
                    return;
                }
            }
        }
        for t in [TID_D, TID_A, 18u8] {
            let c = fixed_cap(t).unwrap_or(usize::MAX);
            for n in LONG_LENS {
                if !sh.mine() {
                    continue;
                }
                let n = n.min(c);
                for a in long_values(n) {
                    for m in [n + 1, n + 64, (n + 1000).min(c), a.significant().max(1)] {
                        if m > c || m < a.significant() {
                            continue;
                        }
                        for yprov in [Prov::Canon, Prov::Spare(4200), Prov::LongThenTrunc(130)] {
                            if !f(C10Case { x: Operand::canon(t, a.clone()), y: Operand { ty: t, bits: a.zext(m), prov: yprov } }) {
                                return;
                            }
                        }
                    }
                }
            }
        }
        // the 70 400-bit fixed type and a geometric ladder of lengths up to megabits (Bvd, Bv)
        let mut long: Vec<(Tid, usize)> = HUGE_TYPE_LENS.iter().map(|&n| (TID_HUGE, n)).collect();
        long.extend(ladder_lengths(tier));
        for (t, n) in long {
            if !sh.mine() {
                continue;
            }
            let c = fixed_cap(t).unwrap_or(usize::MAX);
            let mut vals = vec![dense_value(n), Bits::from_u128(0xdead_beef, n)];
            let mut gap = dense_value(n);
            for i in (n / 2)..n {
                gap.0[i] = false;
            }
            vals.push(gap);
            for a in vals {
                for (m, yprov) in [(n + 1, Prov::Canon), (n + 4099, Prov::Spare(200)), (a.significant().max(1), Prov::Canon), (n, Prov::LongThenTrunc(130))] {
                    let m = m.min(c);
                    if !f(C10Case { x: Operand::canon(t, a.clone()), y: Operand { ty: t, bits: a.zext(m), prov: yprov } }) {
                        return;
                    }
                }
            }
        }
        for t in ROUTINE_TIDS {
            let c = fixed_cap(t).unwrap_or(320);
            let w = WORD_BITS[t as usize];
            for n1 in 0..=c {
                if !sh.mine() {
                    continue;
                }
                let mut ms = vec![n1 + 1, (n1 / w + 1) * w, (n1 / w + 1) * w + 1, c];
                ms.retain(|&m| m <= c);
                ms.sort();
                ms.dedup();
                for a in three_values(n1) {
                    for &m in &ms {
                        for yprov in [Prov::Canon, Prov::LongThenTrunc(130)] {
                            let y = Operand { ty: t, bits: a.zext(m), prov: yprov };
                            if !f(C10Case { x: Operand::canon(t, a.clone()), y }) {
                                return;
                            }
                        }
                    }
                }
            }
        }
    }
    fn check(&self, case: &C10Case, st: &mut Stats) -> CheckResult {
        let C10Case { x, y } = case;
        ensure!(x.ty == y.ty, "bad-case", "C10 is stated within one type");
        let n = x.len().max(y.len());
        ensure!(x.bits.zext(n) == y.bits.zext(n), "bad-case", "C10 case whose two representations differ in value");
        let what = format!("hash:{}", kind_of(x.ty));
        let zx = build_checked(x, "first")?;
        let zy = build_checked(y, "second")?;
        let r = catch(|| z_match!(&zx, vx => probe(vx, &zy)));
        let (eq, stream, def, found) = match r {
            Ok(Ok(t)) => t,
            Ok(Err(e)) => fail!("bad-case", "{}", e),
            Err(p) => fail!(format!("{}/panic", what), "hashing {} / {} panicked: {}", x.describe(), y.describe(), p),
        };
        ensure!(eq, format!("{}/premise-eq", what), "{} and {} hold the same value but do not compare equal (raw {} / {})", x.describe(), y.describe(), zx.raw(), zy.raw());
        ensure!(stream, format!("{}/stream", what), "{} == {} but they feed different data to a Hasher (raw {} / {})", x.describe(), y.describe(), zx.raw(), zy.raw());
        ensure!(def, format!("{}/default-hasher", what), "{} == {} but DefaultHasher outputs differ", x.describe(), y.describe());
        ensure!(found, format!("{}/hashset", what), "a HashSet containing {} does not contain the equal {}", x.describe(), y.describe());
        let hx = z_match!(&zx, v => v.is_heap());
        let hy = z_match!(&zy, v => v.is_heap());
        st.class_if(x.len() != y.len(), "different lengths");
        st.class_if(x.prov != y.prov, "different provenance");
        st.class_if(zx.capacity() != zy.capacity(), "different capacity");
        st.class_if(hx.is_some() && hx != hy, "Bv inline vs heap");
        st.class_if(x.bits.is_zero(), "zero value");
        st.note(case, x.len() != y.len() || x.prov != y.prov || zx.capacity() != zy.capacity());
        Ok(())
    }
}
