//! Helpers shared by the property modules.

use crate::battery::{battery_z, Strength};
use crate::engine::{catch, CheckResult, Violation};
use crate::spec::*;
use crate::stats::Stats;
use num_bigint::BigUint;
use vcore::*;

/// Cost control for division on the 70 400-bit fixed type (bva divides bit by bit over 1100
/// words: half a second at full length): dividends of that type are cut to this many bits.
pub const HUGE_DIV_MAX: usize = 4200;

pub fn clamp_huge_dividend(a: &mut Operand) {
    if a.ty == TID_HUGE && a.bits.len() > HUGE_DIV_MAX {
        let keep = HUGE_DIV_MAX - a.bits.len() % 131;
        a.bits.0.truncate(keep);
    }
}

pub fn strength(st: &Stats) -> Strength {
    if st.light {
        Strength::Light
    } else {
        Strength::Full
    }
}

/// Build an operand; a panic while building or an operand that does not behave like its bits is
/// a violation attributed to the provenance (operands only use documented public operations).
pub fn build_checked(o: &Operand, role: &str) -> Result<Z, Violation> {
    let z = catch(|| o.build()).map_err(|p| Violation {
        sig: format!("build:{}/panic", o.prov.class()),
        msg: format!("building {} operand {} panicked: {}", role, o.describe(), p),
    })?;
    battery_z(&z, &o.bits, Strength::Light, &format!("build:{}", o.prov.class())).map_err(|mut v| {
        v.msg = format!("{} operand {} does not behave like its bits: {}", role, o.describe(), v.msg);
        v
    })?;
    Ok(z)
}

pub fn build_rhs_checked(r: &Rhs) -> Result<BuiltRhs, Violation> {
    match r {
        Rhs::V(o) => Ok(BuiltRhs::V(build_checked(o, "right")?)),
        Rhs::N(n) => Ok(BuiltRhs::N(*n)),
    }
}

/// Apply a binary operator through the dispatch tables; `Err(panic message)` if it panicked.
pub fn apply_bin(l: &Z, r: RhsRef<'_>, op: BinOp, form: Form) -> Result<Z, String> {
    catch(|| match op {
        BinOp::Add | BinOp::Sub | BinOp::Mul => tab_arith::apply(l, r, op, form),
        BinOp::Div | BinOp::Rem => tab_div::apply(l, r, op, form),
        BinOp::And | BinOp::Or | BinOp::Xor => tab_logic::apply(l, r, op, form),
    })
}

/// `&a op &a` with aliased references; `Err(panic message)` if it panicked.
pub fn apply_self(l: &Z, op: BinOp) -> Result<Z, String> {
    catch(|| match op {
        BinOp::Add | BinOp::Sub | BinOp::Mul => tab_arith::apply_self(l, op),
        BinOp::Div | BinOp::Rem => tab_div::apply_self(l, op),
        BinOp::And | BinOp::Or | BinOp::Xor => tab_logic::apply_self(l, op),
    })
}

/// When the right operand has the same type and bits as the left one, also apply the operator
/// to the SAME object on both sides (`&a op &a`): implementations may special-case aliasing.
pub fn check_aliased(za: &Z, a: &Operand, b: &Rhs, op: BinOp, what: &str, st: &mut Stats) -> CheckResult {
    let Rhs::V(o) = b else { return Ok(()) };
    if o.ty != a.ty || o.bits != a.bits {
        return Ok(());
    }
    st.class("aliased operands (&a op &a)");
    match (model_bin(&a.bits, &a.bits, op), apply_self(za, op)) {
        (None, Ok(_)) => Err(Violation { sig: format!("{}/aliased/zero-divisor-returned", what), msg: format!("&a {} &a with a = {} (zero) returned instead of panicking", op.sym(), a.describe()) }),
        (None, Err(_)) => Ok(()),
        (Some(_), Err(p)) => Err(Violation { sig: format!("{}/aliased/panic", what), msg: format!("&a {} &a with a = {} panicked: {}", op.sym(), a.describe(), p) }),
        (Some(e), Ok(r)) => battery_z(&r, &e, Strength::Light, &format!("{}/aliased", what)).map_err(|mut v| {
            v.msg = format!("&a {} &a (both operands the same object) with a = {}: {}", op.sym(), a.describe(), v.msg);
            v
        }),
    }
}

/// Reference semantics of the eight binary operators: result has a's length; b is zero-extended
/// (arithmetic: full value of b; logic: b cut at n). `None` = division by zero (must panic).
pub fn model_bin(a: &Bits, b: &Bits, op: BinOp) -> Option<Bits> {
    let n = a.len();
    match op {
        BinOp::And => Some(Bits((0..n).map(|i| a.0[i] & b.at(i)).collect())),
        BinOp::Or => Some(Bits((0..n).map(|i| a.0[i] | b.at(i)).collect())),
        BinOp::Xor => Some(Bits((0..n).map(|i| a.0[i] ^ b.at(i)).collect())),
        _ => {
            if n <= 128 && b.significant() <= 128 {
                let av = a.low_u128();
                let bv = b.low_u128();
                let mask = if n == 128 { u128::MAX } else { (1u128 << n) - 1 };
                let r = match op {
                    BinOp::Add => av.wrapping_add(bv) & mask,
                    BinOp::Sub => av.wrapping_sub(bv) & mask,
                    BinOp::Mul => av.wrapping_mul(bv) & mask,
                    BinOp::Div => {
                        if bv == 0 {
                            return None;
                        }
                        av / bv
                    }
                    BinOp::Rem => {
                        if bv == 0 {
                            return None;
                        }
                        av % bv
                    }
                    _ => unreachable!(),
                };
                return Some(Bits::from_u128(r, n));
            }
            let av = a.to_big();
            let bv = b.to_big();
            let m = pow2(n);
            let r: BigUint = match op {
                BinOp::Add => (av + bv) % &m,
                BinOp::Sub => {
                    let bm = bv % &m;
                    (av + &m - bm) % &m
                }
                BinOp::Mul => (av * bv) % &m,
                BinOp::Div => {
                    if b.is_zero() {
                        return None;
                    }
                    av / bv
                }
                BinOp::Rem => {
                    if b.is_zero() {
                        return None;
                    }
                    av % bv
                }
                _ => unreachable!(),
            };
            Some(Bits::from_big(&r, n))
        }
    }
}

/// Provenances used by the small-scope enumerations: canonical for every type, plus spare
/// capacity and heap-mode-although-short for the two unbounded types.
pub fn scope_provs(t: Tid) -> Vec<Prov> {
    if t == TID_D || t == TID_A {
        vec![Prov::Canon, Prov::Spare(200), Prov::LongThenTrunc(200), Prov::HugeSpare(300_000)]
    } else {
        vec![Prov::Canon]
    }
}

pub fn op_name(op: BinOp) -> &'static str {
    match op {
        BinOp::Add => "add",
        BinOp::Sub => "sub",
        BinOp::Mul => "mul",
        BinOp::Div => "div",
        BinOp::Rem => "rem",
        BinOp::And => "and",
        BinOp::Or => "or",
        BinOp::Xor => "xor",
    }
}

/// Shape class of an operator application, used in signatures and class counters.
pub fn shape_class(a: &Operand, b: &Rhs) -> &'static str {
    match b {
        Rhs::N(_) => "rhs-native",
        Rhs::V(o) => {
            if o.len() > a.len() {
                "rhs-longer"
            } else if o.len() < a.len() {
                "rhs-shorter"
            } else {
                "rhs-same-len"
            }
        }
    }
}

pub fn kind_of(t: Tid) -> &'static str {
    if is_fixed(t) {
        "Bvf"
    } else if t == TID_D {
        "Bvd"
    } else {
        "Bv"
    }
}

pub fn rhs_kind(b: &Rhs) -> &'static str {
    match b {
        Rhs::N(n) => n.ty.name(),
        Rhs::V(o) => kind_of(o.ty),
    }
}

/// After an operation that must not touch its borrowed operand: the operand still has its bits.
pub fn unchanged(z: &Z, bits: &Bits, what: &str) -> CheckResult {
    let now = read_bits_z(z);
    if &now != bits {
        return Err(Violation {
            sig: format!("{}/operand-modified", what),
            msg: format!("[{}] borrowed operand changed from {} to {}", what, short(bits), short(&now)),
        });
    }
    Ok(())
}
