//! C01 - add, sub, mul wrap modulo 2^len for every operand pairing (DESIGN.md 2, C01).

use super::common::*;
use crate::battery::battery_z;
use crate::engine::*;
use crate::gen::*;
use crate::spec::*;
use crate::stats::Stats;
use crate::{ensure, fail};
use proptest::prelude::*;
use serde::{Deserialize, Serialize};
use vcore::*;

#[derive(Clone, Debug, Hash, Serialize, Deserialize)]
pub struct C01Op {
    pub a: Operand,
    pub b: Rhs,
    pub op: BinOp,
    pub form: Form,
}

#[derive(Clone, Debug, Hash, Serialize, Deserialize)]
pub enum C01Case {
    /// a + b, a - b, a * b through the public operators
    Op(C01Op),
    /// the per-word-type primitives and the word re-chunking, through the `verif-hooks` re-export
    Prim(super::prim::PrimCase),
    /// the same operators on `Bvf<u8,320>` (more than 255 one-byte words in use), outside the zoo
    Wide(super::wide::WideCase),
}

pub struct C01;

pub const ARITH: [BinOp; 3] = [BinOp::Add, BinOp::Sub, BinOp::Mul];

/// How the right operand's value relates to the left one (pairs biased toward wrap-around).
#[derive(Clone, Debug)]
pub enum Rel {
    Independent,
    Same,
    Plus1,
    Minus1,
    Negated,
    FlipBit(u16),
}

pub fn arb_rel() -> impl Strategy<Value = Rel> {
    prop_oneof![
        8 => Just(Rel::Independent),
        1 => Just(Rel::Same),
        1 => Just(Rel::Plus1),
        1 => Just(Rel::Minus1),
        1 => Just(Rel::Negated),
        1 => any::<u16>().prop_map(Rel::FlipBit),
    ]
}

/// Derive b's bits (length m) from a's value according to `rel`.
pub fn related(a: &Bits, m: usize, rel: &Rel, indep: Bits) -> Bits {
    if m == 0 {
        return Bits::new();
    }
    let av = a.to_big();
    let md = pow2(m);
    match rel {
        Rel::Independent => indep,
        Rel::Same => Bits::from_big(&(av % &md), m),
        Rel::Plus1 => Bits::from_big(&((av + 1u8) % &md), m),
        Rel::Minus1 => Bits::from_big(&((av % &md + &md - 1u8) % &md), m),
        Rel::Negated => {
            let am = av % &md;
            Bits::from_big(&((&md - am) % &md), m)
        }
        Rel::FlipBit(f) => {
            let mut b = a.zext(m);
            let i = frac(*f, m);
            b.0[i] = !b.0[i];
            b
        }
    }
}

fn arb_form() -> impl Strategy<Value = Form> {
    (0usize..6).prop_map(|i| FORMS[i])
}

/// Word-pattern alphabet {0,1,MAX-1,MAX,MSB,MSB-1} for a w-bit word, as bits.
pub fn word_alphabet(w: usize) -> Vec<Vec<bool>> {
    (0..6)
        .map(|s| {
            (0..w)
                .map(|k| match s {
                    0 => false,
                    1 => k == 0,
                    2 => k != 0,
                    3 => true,
                    4 => k == w - 1,
                    _ => k != w - 1,
                })
                .collect()
        })
        .collect()
}

/// All values made of `nw` words drawn from the alphabet, truncated to n bits.
pub fn word_pattern_values(w: usize, nw: usize, n: usize) -> Vec<Bits> {
    let alpha = word_alphabet(w);
    let mut out = Vec::new();
    let total = 6usize.pow(nw as u32);
    for code in 0..total {
        let mut c = code;
        let mut bits = Vec::with_capacity(nw * w);
        for _ in 0..nw {
            bits.extend_from_slice(&alpha[c % 6]);
            c /= 6;
        }
        bits.truncate(n);
        bits.resize(n, false);
        out.push(Bits(bits));
    }
    out.sort();
    out.dedup();
    out
}

/// Did a carry (add) or borrow (sub) cross a storage-word boundary of the LHS?
fn ripple_crossed(a: &Bits, b: &Bits, op: BinOp, w: usize) -> bool {
    let n = a.len();
    if n <= w {
        return false;
    }
    let md = pow2(n);
    let av = a.to_big();
    let bv = b.to_big() % &md;
    let r = match op {
        BinOp::Add => &av + &bv,
        BinOp::Sub => &av + &md - &bv,
        _ => return false,
    };
    let x = r ^ av ^ bv;
    let mut k = w;
    while k < n {
        if x.bit(k as u64) {
            return true;
        }
        k += w;
    }
    false
}

fn nonzero_words(b: &Bits, w: usize) -> usize {
    b.0.chunks(w).filter(|c| c.iter().any(|&x| x)).count()
}

impl Property for C01 {
    type Case = C01Case;
    fn id(&self) -> &'static str {
        "C01"
    }
    fn rule(&self) -> String {
        "Cases: (LHS operand any zoo type/length/provenance, RHS vector of any type/length/provenance or native integer, op in {+,-,*}, one of 6 forms). Enumerated: all (n,a,m,b) n,m<=4 (quick)/<=6 (thorough) x 20x20 pairings x 3 ops; all (n,a) x integer lattice x 20 x 6 native types; word-pattern lattice {0,1,MAX-1,MAX,MSB,MSB-1}^words for both operands at lengths {kw-1,kw,kw+1,C} on every multi-word type (RHS same type and Bvd / Bvf<u8,17>), all 2^16 value pairs of Bvf<u8,1> at n=m=8; thorough adds 3-word lattices and all values of Bvf<u8,2> x {Bvf<u8,2>,Bvd} for n<=11. Long vectors: the 2560-bit and 70 400-bit fixed types and Bvd/Bv at 1024..8193 bits against several operand types; every length 321..2600 (thorough 8300); a geometric ladder of lengths around every power of two from 2^14 to 2^21 (thorough 2^24) bits for + and - (* up to 2^19). Also Bvf<u8,320> (2560 bits in one-byte words, outside the zoo) as left operand against {itself,Bvd,Bv,Bvf<u32,80>} and as right operand of Bvd, lengths 2040..2560, dense value patterns (non-trivial there: both operands have more than 256 non-zero bytes). Also (through the verif-hooks re-export) the word primitives cadd/csub/wmul/mask of all six word types on an integer lattice squared (u8 exhaustively) and the slice re-chunking get_int/set_int for all 36 word-type pairs. Random: proptest with related pairs (b = a, a+-1, 2^n-a, one bit flipped). Oracle: BigUint/u128 (val a op val b) mod 2^n + observer battery. Non-trivial: n>0, both values non-zero and (the true result wrapped: >= 2^n or < 0; or a carry/borrow crossed a storage-word boundary of the LHS; or for * both operands have >= 2 non-zero words). Distinct by hash of the whole case.".into()
    }
    fn random_cases(&self, tier: Tier) -> u64 {
        tier.pick(300000, 12800000)
    }
    fn strategy(&self, tier: Tier) -> BoxedStrategy<C01Case> {
        let lmax = lmax_dyn(tier);
        let vec_case = (arb_operand(tier), arb_tid(), arb_len_sel(), arb_valpat(), arb_prov(), arb_rel(), 0usize..3, arb_form()).prop_map(move |(a, bt, bls, bvp, bprov, rel, o, form)| {
            let m = realize_len(&bls, bt, lmax);
            let indep = realize_val(&bvp, m, WORD_BITS[bt as usize]);
            let bb = related(&a.bits, m, &rel, indep);
            C01Case::Op(C01Op { a, b: Rhs::V(Operand { ty: bt, bits: bb, prov: bprov }), op: ARITH[o], form })
        });
        let nat_case = (arb_operand(tier), arb_nat(), 0usize..3, arb_form()).prop_map(|(a, x, o, form)| C01Case::Op(C01Op { a, b: Rhs::N(x), op: ARITH[o], form }));
        use super::prim::{PrimCase, PrimKind};
        let word = (arb_nat_ty(), 0usize..4, arb_nat(), arb_nat(), arb_nat(), any::<u8>()).prop_map(|(ty, k, a, b, c, l)| {
            let kind = [PrimKind::Cadd, PrimKind::Csub, PrimKind::Wmul, PrimKind::Mask][k];
            let a = if kind == PrimKind::Mask { Nat::new(NatTy::U128, l as u128 * 2) } else { Nat::new(NatTy::U128, a.v) };
            C01Case::Prim(PrimCase::Word { ty, kind, a, b: Nat::new(NatTy::U128, b.v), c: Nat::new(NatTy::U128, if c.v % 3 == 0 { c.v } else { c.v % 3 }) })
        });
        let chunk = (arb_nat_ty(), arb_nat_ty(), proptest::collection::vec(any::<u128>(), 0..6), 0usize..12, any::<u128>()).prop_map(|(src, dst, ws, idx, val)| {
            C01Case::Prim(PrimCase::Chunk { src, dst, words: ws.into_iter().map(|w| Nat::new(NatTy::U128, w)).collect(), idx, val: Nat::new(NatTy::U128, val) })
        });
        use super::wide::{wide_value, WideCase, WideTy, WIDE_RHS};
        let wide = (0usize..=520, 0u8..6, 0u8..6, any::<u64>(), 0usize..5, 0usize..4, 0usize..3, any::<bool>(), any::<bool>()).prop_map(|(dn, asel, bsel, seed, msel, rt, o, assign, dyn_left)| {
            let n = 2560 - dn;
            let rhs = if dyn_left { WideTy::W8 } else { WIDE_RHS[rt] };
            let m = [n, n, n.saturating_sub(9), n / 2 + 3, 2560][msel].min(rhs.cap());
            let (lhs, n) = if dyn_left { (WideTy::D, n + (seed % 700) as usize) } else { (WideTy::W8, n) };
            C01Case::Wide(WideCase { lhs, a: wide_value(n, asel, seed), rhs, b: wide_value(m, bsel, seed ^ 0x55), op: ARITH[o], assign })
        });
        prop_oneof![36 => vec_case, 12 => nat_case, 8 => word, 4 => chunk, 1 => wide].boxed()
    }
    fn exhaustive_subspaces(&self, tier: Tier) -> Vec<String> {
        let k = tier.pick(4, 6);
        let mut v = vec![
            format!("all values of both operands for all lengths n,m<={} x 20x20 type pairings x {{+,-,*}} (form rotates)", k),
            format!("all values for n<={} x integer lattice x 20 LHS types x 6 native RHS types x {{+,-,*}}", k),
            "all 2^16 value pairs of Bvf<u8,1> at n=m=8 x {+,-,*}".into(),
            "Bvf<u8,320> (over 255 one-byte words in use) as left operand at lengths {2057,2064,2088,2400,2559,2560} (thorough: 14 lengths from 2041) x 6 value patterns x 9 right operands x {Bvf<u8,320>,Bvd,Bv,Bvf<u32,80>} x {+,-,*}, and Bvd op Bvf<u8,320>".into(),
            "primitives (verif-hooks): u8::cadd/csub for all 2^16 operand pairs x carry in {0,1,2,255}, u8::wmul for all pairs; mask(l) for every l in 0..=2w+1 on all six word types; word re-chunking get_int/set_int for all 36 (array word, chunk word) type pairs x arrays of 0..4 words x every index".into(),
        ];
        if tier == Tier::Thorough {
            v.push("all values of Bvf<u8,2> (n<=11) x all values of {Bvf<u8,2>,Bvd} (m in {0,1,7,8,9,11}) x {+,-,*}".into());
        }
        v
    }
    fn enumerate(&self, tier: Tier, sh: &mut Shard, f: &mut dyn FnMut(C01Case) -> bool) {
        let k = tier.pick(4, 6);
        let mut rot = 0usize;
        let mut emit = |lt: Tid, a: &Bits, b: Rhs, op: BinOp, f: &mut dyn FnMut(C01Case) -> bool| -> bool {
            rot += 1;
            f(C01Case::Op(C01Op { a: Operand::canon(lt, a.clone()), b, op, form: FORMS[rot % 6] }))
        };
        // (i) complete small scope, vector RHS
        for lt in ROUTINE_TIDS {
            for rt in ROUTINE_TIDS {
                if !sh.mine() {
                    continue;
                }
                for n in 0..=k {
                    for m in 0..=k {
                        for a in all_values(n) {
                            for b in all_values(m) {
                                for op in ARITH {
                                    if !emit(lt, &a, Rhs::V(Operand::canon(rt, b.clone())), op, f) {
                                        return;
                                    }
                                    // spare capacity / heap-mode-although-short operands of the unbounded types
                                    for pa in scope_provs(lt) {
                                        for pb in scope_provs(rt) {
                                            if pa == Prov::Canon && pb == Prov::Canon {
                                                continue;
                                            }
                                            let c = C01Case::Op(C01Op { a: Operand::fitted(lt, a.clone(), pa.clone()), b: Rhs::V(Operand::fitted(rt, b.clone(), pb)), op, form: FORMS[(n + m) % 6] });
                                            if !f(c) {
                                                return;
                                            }
                                        }
                                    }
                                }
                            }
                        }
                    }
                }
            }
        }
        // (ii) native RHS over the integer lattice
        for lt in ROUTINE_TIDS {
            for nty in NAT_TYS {
                if !sh.mine() {
                    continue;
                }
                for n in 0..=k {
                    for a in all_values(n) {
                        for x in nat_lattice(nty) {
                            for op in ARITH {
                                if !emit(lt, &a, Rhs::N(Nat::new(nty, x)), op, f) {
                                    return;
                                }
                            }
                        }
                    }
                }
                // full-width LHS patterns against the lattice (carry through every word)
                let w = WORD_BITS[lt as usize];
                let c = fixed_cap(lt).unwrap_or(192);
                for n in [c.saturating_sub(1), c] {
                    for a in [Bits::ones(n), realize_val(&ValPat::LowOnes(40000), n, w), realize_val(&ValPat::OneHot(65535), n, w)] {
                        for x in nat_lattice(nty) {
                            for op in ARITH {
                                if !emit(lt, &a, Rhs::N(Nat::new(nty, x)), op, f) {
                                    return;
                                }
                            }
                        }
                    }
                }
            }
        }
        // (iii) word-pattern lattice on every multi-word type
        for lt in ROUTINE_TIDS {
            let w = WORD_BITS[lt as usize];
            let nwords_l = if is_fixed(lt) { NWORDS[lt as usize] } else { 3 };
            if nwords_l < 2 {
                continue;
            }
            let nw = if tier == Tier::Thorough { nwords_l.min(3) } else { 2 };
            let c = fixed_cap(lt).unwrap_or(usize::MAX);
            let mut lens: Vec<usize> = vec![];
            for kk in 1..=nw {
                lens.extend([kk * w - 1, kk * w, kk * w + 1]);
            }
            if c != usize::MAX {
                lens.push(c);
            }
            lens.retain(|&n| n <= c && n <= nw * w + 1);
            lens.sort();
            lens.dedup();
            let mut rts = vec![lt, TID_D, 4u8];
            rts.sort();
            rts.dedup();
            for rt in rts {
                let rcap = fixed_cap(rt).unwrap_or(usize::MAX);
                for &n in &lens {
                    if !sh.mine() {
                        continue;
                    }
                    let avals = word_pattern_values(w, nw, n);
                    let m = n.min(rcap);
                    let bvals = word_pattern_values(w, nw, m);
                    for a in &avals {
                        for b in &bvals {
                            for op in ARITH {
                                if !emit(lt, a, Rhs::V(Operand::canon(rt, b.clone())), op, f) {
                                    return;
                                }
                            }
                        }
                    }
                }
            }
        }
        // (iii-b) a op a with both operands the same value AND type (the check then also runs the
        // aliased form &a op &a), word patterns over up to 9 words
        for lt in ROUTINE_TIDS {
            if !sh.mine() {
                continue;
            }
            let w = WORD_BITS[lt as usize];
            let c = fixed_cap(lt).unwrap_or(9 * w);
            for nwords in 1..=9usize {
                for n in [nwords * w, (nwords * w).saturating_sub(3)] {
                    if n > c || n == 0 {
                        continue;
                    }
                    for pat in [ValPat::Ones, ValPat::Alt(true), ValPat::Dense(vec![0xFFFF_FFFE_FFFF_FFFF, 0xD1B5_4A32_D192_ED03, 0xFFFF_FFFF_FFFF_FFFF]), ValPat::WordPat(vec![3, 5, 3, 2, 3], vec![1, 2, 3, 4])] {
                        let a = realize_val(&pat, n, w);
                        for op in ARITH {
                            if !emit(lt, &a, Rhs::V(Operand::canon(lt, a.clone())), op, f) {
                                return;
                            }
                        }
                    }
                }
            }
        }
        // (iii-b2) every length up to the dense bound: a carry through every word, a dense operand
        for (t, n) in dense_lengths(tier) {
            if !sh.mine() {
                continue;
            }
            if !emit(t, &Bits::ones(n), Rhs::N(Nat::new(NatTy::U8, 1)), BinOp::Add, f) {
                return;
            }
            if !emit(t, &Bits::zeros(n), Rhs::V(Operand::canon(TID_D, Bits::from_u128(1, n.min(70)))), BinOp::Sub, f) {
                return;
            }
            if !emit(t, &dense_value(n), Rhs::V(Operand::canon(TID_A, dense_value(n / 2 + 1))), ARITH[n % 3], f) {
                return;
            }
        }
        // (iii-c) thousands of bits: the unbounded types (and the 2560-bit fixed type) against
        // operands of several types and lengths
        for lt in [TID_D, TID_A, 18u8] {
            for rt in [TID_D, TID_A, 18u8, 11u8, 4u8] {
                if !sh.mine() {
                    continue;
                }
                let lc = fixed_cap(lt).unwrap_or(usize::MAX);
                let rc = fixed_cap(rt).unwrap_or(usize::MAX);
                for n in LONG_LENS {
                    let n = n.min(lc);
                    for m in [n, n / 2 + 7, 64usize] {
                        let m = m.min(rc);
                        for a in long_values(n) {
                            for b in [Bits::ones(m), long_values(m)[1].clone(), Bits::from_u128(3, m)] {
                                for op in ARITH {
                                    if !emit(lt, &a, Rhs::V(Operand::canon(rt, b.clone())), op, f) {
                                        return;
                                    }
                                }
                            }
                        }
                    }
                }
            }
        }
        // (iii-c2) the 70 400-bit fixed type at and near its capacity and around 2^16 bits
        for (lt, rt) in [(TID_HUGE, TID_HUGE), (TID_HUGE, TID_D), (TID_HUGE, TID_A), (TID_D, TID_HUGE), (TID_A, TID_HUGE), (TID_HUGE, 18u8), (18u8, TID_HUGE)] {
            if !sh.mine() {
                continue;
            }
            let lc = fixed_cap(lt).unwrap_or(usize::MAX);
            let rc = fixed_cap(rt).unwrap_or(usize::MAX);
            for n in [4097usize, 65535, 65537, 70399, 70400] {
                let n = n.min(lc);
                for m in [n, n / 2 + 7, 64usize] {
                    let m = m.min(rc);
                    for (a, b) in [(Bits::ones(n), Bits::ones(m)), (long_values(n)[1].clone(), long_values(m)[1].clone()), (long_values(n)[5].clone(), Bits::from_u128(3, m))] {
                        for op in ARITH {
                            if !emit(lt, &a, Rhs::V(Operand::canon(rt, b.clone())), op, f) {
                                return;
                            }
                        }
                    }
                }
            }
        }
        // (iii-c3) geometric ladder of lengths up to megabits on the unbounded types: + and - at
        // every rung, * up to 2^19 bits (schoolbook multiplication is quadratic)
        for (t, n) in ladder_lengths(tier) {
            if !sh.mine() {
                continue;
            }
            let other = if t == TID_D { TID_A } else { TID_D };
            if !emit(t, &Bits::ones(n), Rhs::N(Nat::new(NatTy::U8, 1)), BinOp::Add, f) {
                return;
            }
            if !emit(t, &Bits::zeros(n), Rhs::V(Operand::canon(other, Bits::from_u128(1, 70))), BinOp::Sub, f) {
                return;
            }
            if !emit(t, &dense_value(n), Rhs::V(Operand::canon(other, dense_value(n - 5))), if n % 2 == 0 { BinOp::Add } else { BinOp::Sub }, f) {
                return;
            }
            if n <= (1 << 19) + 5000 {
                if !emit(t, &dense_value(n), Rhs::V(Operand::canon(other, dense_value(n / 2 + 1))), BinOp::Mul, f) {
                    return;
                }
                if !emit(t, &Bits::ones(n), Rhs::V(Operand::canon(t, Bits::ones(n))), BinOp::Mul, f) {
                    return;
                }
            }
        }
        // (iii-d) more than 255 one-byte words in use: Bvf<u8,320>, outside the zoo
        if !super::wide::enumerate_wide(&ARITH, tier == Tier::Thorough, sh, &mut |c| f(C01Case::Wide(c))) {
            return;
        }
        // (iv) all value pairs of Bvf<u8,1> at full width (the u8 primitives, exhaustively)
        for av in 0u32..256 {
            if !sh.mine() {
                continue;
            }
            let a = Bits::from_u128(av as u128, 8);
            for bv in 0u32..256 {
                for op in ARITH {
                    if !emit(0, &a, Rhs::V(Operand::canon(0, Bits::from_u128(bv as u128, 8))), op, f) {
                        return;
                    }
                }
            }
        }
        // (vi) the primitives themselves (verif-hooks): u8 exhaustively, wider types on the lattice
        {
            use super::prim::{PrimCase, PrimKind};
            let n128 = |v: u128| Nat::new(NatTy::U128, v);
            for av in 0u128..256 {
                if !sh.mine() {
                    continue;
                }
                for bv in 0u128..256 {
                    for c in [0u128, 1, 2, 255] {
                        for kind in [PrimKind::Cadd, PrimKind::Csub] {
                            if !f(C01Case::Prim(PrimCase::Word { ty: NatTy::U8, kind, a: n128(av), b: n128(bv), c: n128(c) })) {
                                return;
                            }
                        }
                    }
                    if !f(C01Case::Prim(PrimCase::Word { ty: NatTy::U8, kind: PrimKind::Wmul, a: n128(av), b: n128(bv), c: n128(0) })) {
                        return;
                    }
                }
            }
            for ty in NAT_TYS {
                if !sh.mine() {
                    continue;
                }
                let mut lat = nat_lattice(ty);
                let m = ty.maxv();
                lat.extend([m / 2, m / 2 + 1, m / 3, m - m / 3, 0x0123_4567_89AB_CDEF_FEDC_BA98_7654_3210 & m, 0xFFFF_FFFF_0000_0000_FFFF_FFFF_0000_0001 & m, (m >> (ty.bits() / 2)), (m >> (ty.bits() / 2)) + 1, m << (ty.bits() / 2) & m]);
                lat.sort();
                lat.dedup();
                for &a in &lat {
                    for &b in &lat {
                        for c in [0u128, 1, 2, m] {
                            for kind in [PrimKind::Cadd, PrimKind::Csub] {
                                if !f(C01Case::Prim(PrimCase::Word { ty, kind, a: n128(a), b: n128(b), c: n128(c) })) {
                                    return;
                                }
                            }
                        }
                        if !f(C01Case::Prim(PrimCase::Word { ty, kind: PrimKind::Wmul, a: n128(a), b: n128(b), c: n128(0) })) {
                            return;
                        }
                    }
                }
                for l in 0..=(2 * ty.bits() + 1) {
                    if !f(C01Case::Prim(PrimCase::Word { ty, kind: PrimKind::Mask, a: n128(l as u128), b: n128(0), c: n128(0) })) {
                        return;
                    }
                }
            }
            for src in NAT_TYS {
                for dst in NAT_TYS {
                    if !sh.mine() {
                        continue;
                    }
                    for count in 0..=4usize {
                        for pat in 0..2u128 {
                            let words: Vec<Nat> = (0..count as u128).map(|i| n128(if pat == 0 { u128::MAX } else { (i + 1).wrapping_mul(0x0123_4567_89AB_CDEF_1122_3344_5566_7788) })).collect();
                            let il = (count * src.bits() + dst.bits() - 1) / dst.bits();
                            for idx in 0..=(il + 1) {
                                for val in [0u128, 0xA5A5_5A5A_C3C3_3C3C_0FF0_F00F_1234_8765] {
                                    if !f(C01Case::Prim(PrimCase::Chunk { src, dst, words: words.clone(), idx, val: n128(val) })) {
                                        return;
                                    }
                                }
                            }
                        }
                    }
                }
            }
        }
        // (v) thorough: all values of Bvf<u8,2> across its word boundary
        if tier == Tier::Thorough {
            for rt in [1u8, TID_D] {
                for n in 0..=11usize {
                    for a in all_values(n) {
                        if !sh.mine() {
                            continue;
                        }
                        for m in [0usize, 1, 7, 8, 9, 11] {
                            for b in all_values(m) {
                                for op in ARITH {
                                    if !emit(1, &a, Rhs::V(Operand::canon(rt, b.clone())), op, f) {
                                        return;
                                    }
                                }
                            }
                        }
                    }
                }
            }
        }
    }

    fn check(&self, case: &C01Case, st: &mut Stats) -> CheckResult {
        let C01Op { a, b, op, form } = match case {
            C01Case::Op(o) => o,
            C01Case::Wide(w) => {
                ensure!(ARITH.contains(&w.op), "bad-case", "C01 wide case with non-arithmetic operator");
                super::wide::check_wide(w)?;
                st.class("Bvf<u8,320>: over 255 one-byte words");
                st.class(&format!("wide op:{}", op_name(w.op)));
                st.note(case, super::wide::wide_nontrivial(w));
                return Ok(());
            }
            C01Case::Prim(p) => {
                super::prim::check_prim(p)?;
                let (cls, nt) = match p {
                    super::prim::PrimCase::Word { ty, kind, a, b, .. } => (format!("primitive {:?}", kind), a.v & ty.maxv() != 0 && b.v & ty.maxv() != 0 && (ty.bits() > 8 || *kind == super::prim::PrimKind::Wmul)),
                    super::prim::PrimCase::Chunk { src, dst, words, .. } => ("primitive re-chunking".to_string(), src != dst && words.len() >= 2),
                };
                st.class(&cls);
                st.note(case, nt);
                return Ok(());
            }
        };
        ensure!(ARITH.contains(op), "bad-case", "C01 case with non-arithmetic operator");
        let what = format!("{}:{}:{}x{}", op_name(*op), shape_class(a, b), kind_of(a.ty), rhs_kind(b));
        let za = build_checked(a, "left")?;
        let rb = build_rhs_checked(b)?;
        let bbits = b.bits();
        let expected = model_bin(&a.bits, &bbits, *op).unwrap();
        let res = match apply_bin(&za, rb.as_ref(), *op, *form) {
            Ok(r) => r,
            Err(p) => fail!(format!("{}/panic", what), "{} {} {} ({:?}) panicked: {}", a.describe(), op.sym(), b.describe(), form, p),
        };
        ensure!(res.tid() == a.ty, format!("{}/type", what), "result type differs from LHS type");
        battery_z(&res, &expected, strength(st), &what).map_err(|mut v| {
            v.msg = format!("{} {} {} ({:?}): {}", a.describe(), op.sym(), b.describe(), form, v.msg);
            v
        })?;
        unchanged(&za, &a.bits, &what)?;
        if let BuiltRhs::V(zb) = &rb {
            unchanged(zb, &bbits, &what)?;
        }
        check_aliased(&za, a, b, *op, &what, st)?;
        // ---- classification
        let n = a.len();
        let w = WORD_BITS[a.ty as usize];
        let both_nonzero = !a.bits.is_zero() && !bbits.is_zero();
        let wrapped = if both_nonzero && n > 0 {
            let av = a.bits.to_big();
            let bv = bbits.to_big();
            match op {
                BinOp::Add => av + bv >= pow2(n),
                BinOp::Sub => bv > av,
                _ => av * bv >= pow2(n),
            }
        } else {
            false
        };
        let ripple = both_nonzero && ripple_crossed(&a.bits, &bbits, *op, w);
        let mulwide = *op == BinOp::Mul && nonzero_words(&a.bits, w) >= 2 && nonzero_words(&bbits, w) >= 2;
        st.class(shape_class(a, b));
        st.class(a.prov.class());
        if let Rhs::V(o) = b {
            st.class_if(o.prov != Prov::Canon, "rhs non-canonical provenance");
        }
        st.class(&format!("op:{}", op_name(*op)));
        st.class_if(n == 0 || b.len() == 0, "empty operand");
        st.class_if(wrapped, "wrapped");
        st.class_if(ripple, "carry/borrow crossed a word boundary");
        st.class_if(mulwide, "mul with >=2 non-zero words on both sides");
        st.note(case, n > 0 && both_nonzero && (wrapped || ripple || mulwide));
        Ok(())
    }
    fn assumptions(&self) -> Vec<String> {
        vec![
            "trusted bridge: zeros(n)+set(i) builds canonical operands, len()+get(i) reads results back".into(),
            "oracle: num-bigint BigUint / native u128 arithmetic".into(),
        ]
    }
}
