//! A many-word fixed vector with the narrowest storage word, outside the zoo: `Bvf<u8, 320>`
//! (2560 bits held in 320 one-byte words). Everything that counts, indexes or accumulates in the
//! storage word type (a carry counter, a column accumulator, a word index) overflows first here:
//! more than 255 words are in use. The zoo's widest `u8` shape has 17 words; its 2560-bit shape
//! uses `u32` words. The type is driven through the public operators directly (no dispatch
//! tables) and observed with a small battery of its own.

use super::common::{model_bin, op_name};
use crate::battery::hash_stream;
use crate::engine::*;
use crate::{ensure, fail};
use serde::{Deserialize, Serialize};
use std::cmp::Ordering;
use std::fmt;
use std::hash::Hash;
use vcore::*;

pub type W8 = Bvf<u8, 320>;
pub const W8_CAP: usize = 2560;

#[derive(Clone, Copy, Debug, Hash, PartialEq, Eq, Serialize, Deserialize)]
pub enum WideTy {
    /// `Bvf<u8, 320>`
    W8,
    /// `Bvd`
    D,
    /// `Bv`
    A,
    /// `Bvf<u32, 80>`
    F32x80,
}

impl WideTy {
    pub fn cap(self) -> usize {
        match self {
            WideTy::W8 | WideTy::F32x80 => W8_CAP,
            _ => usize::MAX,
        }
    }
    pub fn name(self) -> &'static str {
        match self {
            WideTy::W8 => "Bvf<u8,320>",
            WideTy::D => "Bvd",
            WideTy::A => "Bv",
            WideTy::F32x80 => "Bvf<u32,80>",
        }
    }
}

pub const WIDE_RHS: [WideTy; 4] = [WideTy::W8, WideTy::D, WideTy::A, WideTy::F32x80];

/// `a op b` (or `a op= b`) with the left operand a `Bvf<u8,320>`, or a `Bvd` whose right operand
/// is a `Bvf<u8,320>`.
#[derive(Clone, Debug, Hash, Serialize, Deserialize)]
pub struct WideCase {
    pub lhs: WideTy,
    pub a: Bits,
    pub rhs: WideTy,
    pub b: Bits,
    pub op: BinOp,
    pub assign: bool,
}

macro_rules! bin {
    ($a:expr, $b:expr, $op:expr, $assign:expr) => {{
        let a = $a;
        let b = $b;
        if $assign {
            let mut t = a.clone();
            match $op {
                BinOp::Add => t += b,
                BinOp::Sub => t -= b,
                BinOp::Mul => t *= b,
                BinOp::Div => t /= b,
                BinOp::Rem => t %= b,
                BinOp::And => t &= b,
                BinOp::Or => t |= b,
                BinOp::Xor => t ^= b,
            }
            t
        } else {
            match $op {
                BinOp::Add => a + b,
                BinOp::Sub => a - b,
                BinOp::Mul => a * b,
                BinOp::Div => a / b,
                BinOp::Rem => a % b,
                BinOp::And => a & b,
                BinOp::Or => a | b,
                BinOp::Xor => a ^ b,
            }
        }
    }};
}

fn viol(what: &str, obs: &str, msg: String) -> Violation {
    Violation { sig: format!("{}/{}", what, obs), msg }
}

/// The raw-storage observers that matter after an operator, against a freshly built vector.
fn observe<T>(v: &T, model: &Bits, what: &str) -> CheckResult
where
    T: BitVector + Hash + Ord + fmt::LowerHex,
{
    let n = model.len();
    ensure!(v.len() == n, format!("{}/len", what), "length {} but the left operand has {} bits", v.len(), n);
    let got = read_bits(v);
    if &got != model {
        let i = (0..n).find(|&i| got.0[i] != model.0[i]).unwrap_or(0);
        return Err(viol(what, "get", format!("bit {} is {}, model predicts {}; got {} expected {}", i, got.0[i] as u8, model.0[i] as u8, crate::spec::short(&got), crate::spec::short(model))));
    }
    ensure!(v.is_zero() == model.is_zero(), format!("{}/is_zero", what), "is_zero() = {} on value {}", v.is_zero(), crate::spec::short(model));
    ensure!(v.to_vec(Endianness::Little) == model.to_bytes_le(), format!("{}/to_vec(Little)", what), "to_vec differs from the bits read back ({})", crate::spec::short(model));
    ensure!(format!("{:x}", v) == model.hex(), format!("{}/{{:x}}", what), "hex rendering differs from the bits read back ({})", crate::spec::short(model));
    let fresh: T = build_canon::<T>(model);
    ensure!(v == &fresh && &fresh == v, format!("{}/==fresh", what), "result != freshly built vector with identical bits {}", crate::spec::short(model));
    ensure!(v.cmp(&fresh) == Ordering::Equal, format!("{}/cmp-fresh", what), "cmp with a fresh vector holding identical bits is {:?}", v.cmp(&fresh));
    ensure!(hash_stream(v) == hash_stream(&fresh), format!("{}/hash-fresh", what), "hash input differs from a fresh vector with identical bits");
    Ok(())
}

pub fn describe(c: &WideCase) -> String {
    format!("{}[{} bits: {}] {}{} {}[{} bits: {}]", c.lhs.name(), c.a.len(), crate::spec::short(&c.a), c.op.sym(), if c.assign { "=" } else { "" }, c.rhs.name(), c.b.len(), crate::spec::short(&c.b))
}

pub fn check_wide(c: &WideCase) -> CheckResult {
    ensure!(c.lhs == WideTy::W8 || (c.lhs == WideTy::D && c.rhs == WideTy::W8), "bad-case", "wide case must involve Bvf<u8,320>");
    ensure!(c.a.len() <= c.lhs.cap() && c.b.len() <= c.rhs.cap(), "bad-case", "wide case operand longer than its type's capacity");
    let what = format!("wide:{}:{}x{}", op_name(c.op), c.lhs.name(), c.rhs.name());
    let expected = model_bin(&c.a, &c.b, c.op);
    let (op, assign) = (c.op, c.assign);
    macro_rules! run {
        ($L:ty) => {{
            let za: $L = build_canon(&c.a);
            observe(&za, &c.a, &format!("{}/build-left", what))?;
            let out = match c.rhs {
                WideTy::W8 => {
                    let zb: W8 = build_canon(&c.b);
                    observe(&zb, &c.b, &format!("{}/build-right", what))?;
                    let r = catch(|| bin!(&za, &zb, op, assign));
                    ensure!(read_bits(&zb) == c.b, format!("{}/right-changed", what), "{}: right operand changed", describe(c));
                    r
                }
                WideTy::D => {
                    let zb: Bvd = build_canon(&c.b);
                    catch(|| bin!(&za, &zb, op, assign))
                }
                WideTy::A => {
                    let zb: Bv = build_canon(&c.b);
                    catch(|| bin!(&za, &zb, op, assign))
                }
                WideTy::F32x80 => {
                    let zb: F32x80 = build_canon(&c.b);
                    catch(|| bin!(&za, &zb, op, assign))
                }
            };
            ensure!(read_bits(&za) == c.a, format!("{}/left-changed", what), "{}: left operand changed", describe(c));
            match (expected, out) {
                (None, Ok(_)) => fail!(format!("{}/zero-divisor-returned", what), "{}: zero divisor but the call returned", describe(c)),
                (None, Err(_)) => Ok(()),
                (Some(_), Err(p)) => fail!(format!("{}/panic", what), "{} panicked: {}", describe(c), p),
                (Some(e), Ok(r)) => observe(&r, &e, &what).map_err(|mut v| {
                    v.msg = format!("{}: {}", describe(c), v.msg);
                    v
                }),
            }
        }};
    }
    match c.lhs {
        WideTy::W8 => run!(W8),
        _ => run!(Bvd),
    }
}

/// `!&a` and `!a` on a `Bvf<u8,320>`.
pub fn check_wide_not(a: &Bits) -> CheckResult {
    ensure!(a.len() <= W8_CAP, "bad-case", "wide case operand longer than its type's capacity");
    let za: W8 = build_canon(a);
    let e = Bits(a.0.iter().map(|&x| !x).collect());
    match catch(|| (!&za, !za.clone())) {
        Ok((r1, r2)) => {
            observe(&r1, &e, "wide:not:borrowed")?;
            observe(&r2, &e, "wide:not:owned")
        }
        Err(p) => fail!("wide:not/panic", "!Bvf<u8,320>[{} bits] panicked: {}", a.len(), p),
    }
}

fn mix(mut x: u64) -> u64 {
    x = x.wrapping_add(0x9E37_79B9_7F4A_7C15);
    x = (x ^ (x >> 30)).wrapping_mul(0xBF58_476D_1CE4_E5B9);
    x = (x ^ (x >> 27)).wrapping_mul(0x94D0_49BB_1331_11EB);
    x ^ (x >> 31)
}

/// Value patterns for long operands, by selector: 0 all ones, 1 every byte >= 0xe0 (dense, varied),
/// 2 pseudo-random bytes, 3 every byte 0xff except a few, 4 only the top bit, 5 small value.
pub fn wide_value(n: usize, sel: u8, seed: u64) -> Bits {
    let nbytes = (n + 7) / 8;
    let bytes: Vec<u8> = (0..nbytes as u64)
        .map(|i| {
            let h = mix(seed.wrapping_mul(0x1000_0000_01B3).wrapping_add(i));
            match sel % 6 {
                0 => 0xff,
                1 => 0xe0 | (h as u8 & 0x1f),
                2 => h as u8,
                3 => {
                    if h % 61 == 0 {
                        (h >> 8) as u8
                    } else {
                        0xff
                    }
                }
                4 => 0,
                _ => {
                    if i == 0 {
                        (h as u8) | 1
                    } else {
                        0
                    }
                }
            }
        })
        .collect();
    let mut b = Bits::from_bytes_le(&bytes);
    b.0.truncate(n);
    if sel % 6 == 4 && n > 0 {
        b.0[n - 1] = true;
    }
    b
}

/// Deterministic lattice of wide cases for the given operators.
pub fn enumerate_wide(ops: &[BinOp], thorough: bool, sh: &mut Shard, f: &mut dyn FnMut(WideCase) -> bool) -> bool {
    let lens: Vec<usize> = if thorough { vec![2041, 2048, 2049, 2056, 2057, 2064, 2065, 2088, 2089, 2200, 2400, 2555, 2559, 2560] } else { vec![2057, 2064, 2088, 2400, 2559, 2560] };
    let mut k = 0u64;
    for &n in &lens {
        for rhs in WIDE_RHS {
            if !sh.mine() {
                continue;
            }
            for asel in 0..6u8 {
                for (m, bsel) in [(n, 0u8), (n, 1), (n, 2), (n, 3), (n - 9, 1), (n / 2 + 3, 0), (64, 2), (n, 5), (n, 4)] {
                    let m = m.min(rhs.cap());
                    for &op in ops {
                        k += 1;
                        let c = WideCase { lhs: WideTy::W8, a: wide_value(n, asel, k), rhs, b: wide_value(m, bsel, k ^ 0x55), op, assign: k % 2 == 0 };
                        if !f(c) {
                            return false;
                        }
                    }
                }
            }
        }
    }
    // a dynamic left operand reading a Bvf<u8,320> word by word
    for n in [2560usize, 2600, 3001] {
        if !sh.mine() {
            continue;
        }
        for asel in 0..4u8 {
            for (m, bsel) in [(2560usize, 0u8), (2560, 1), (2559, 2), (2064, 3)] {
                for &op in ops {
                    k += 1;
                    let c = WideCase { lhs: WideTy::D, a: wide_value(n, asel, k), rhs: WideTy::W8, b: wide_value(m, bsel, k ^ 0x55), op, assign: k % 2 == 1 };
                    if !f(c) {
                        return false;
                    }
                }
            }
        }
    }
    true
}

pub fn wide_nontrivial(c: &WideCase) -> bool {
    let words = |b: &Bits| b.0.chunks(8).filter(|w| w.iter().any(|&x| x)).count();
    words(&c.a) > 256 && words(&c.b) > 256
}
