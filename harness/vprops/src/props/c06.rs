//! C06 - rotations permute bits cyclically and are mutually inverse.

use super::common::*;
use crate::battery::battery_z;
use crate::engine::*;
use crate::gen::*;
use crate::spec::*;
use crate::stats::Stats;
use crate::{ensure, fail};
use proptest::prelude::*;
use serde::{Deserialize, Serialize};
use vcore::*;

#[derive(Clone, Debug, Hash, Serialize, Deserialize)]
pub struct C06Case {
    pub a: Operand,
    /// rotation amount, 0 <= k <= len
    pub k: usize,
    pub left: bool,
}

pub struct C06;

pub fn model_rot(a: &Bits, k: usize, left: bool) -> Bits {
    let n = a.len();
    if n == 0 {
        return Bits::new();
    }
    let mut out = vec![false; n];
    for i in 0..n {
        let j = if left { (i + k) % n } else { (i + n - (k % n)) % n };
        out[j] = a.0[i];
    }
    Bits(out)
}

fn rot(z: &mut Z, k: usize, left: bool) -> Result<(), String> {
    catch(|| z_match!(z, v => if left { v.rotl(k) } else { v.rotr(k) }))
}

impl Property for C06 {
    type Case = C06Case;
    fn id(&self) -> &'static str {
        "C06"
    }
    fn rule(&self) -> String {
        "Cases: (operand of any zoo type/length/provenance, rotation amount 0<=k<=len, direction). Enumerated: all values and all k for n<=10 (quick)/13 (thorough) on all 20 types; every (n,k) for n<=min(C,100)/320 with run-pattern values whose run of ones ends at k, at k+-1 and at a storage-word boundary; long vectors: every length 321..2600 (thorough 8300), 1024..8193 bits on Bvd/Bv/the 2560-bit type, the 70 400-bit fixed type at 7 lengths x 15 amounts, and a geometric ladder of lengths around every power of two from 2^14 to 2^21 (thorough 2^24) bits x 7 amounts. Oracle: list rotation (bit i moves to (i+k) mod n for rotl, (i-k) mod n for rotr), the stated consequences as metamorphic checks (rotl k then rotr k = identity; rotl k = rotr (n-k); popcount preserved) and the observer battery on every result. Non-trivial: n>1, 0<k<n and the value is not invariant under that rotation. Distinct by hash of the case.".into()
    }
    fn random_cases(&self, tier: Tier) -> u64 {
        tier.pick(200000, 6400000)
    }
    fn strategy(&self, tier: Tier) -> BoxedStrategy<C06Case> {
        (arb_operand(tier), any::<u16>(), 0usize..16, any::<bool>()).prop_map(|(a, f, sel, left)| {
            let n = a.len();
            let w = WORD_BITS[a.ty as usize];
            // half uniform, half from the lattice {0, 1, w, 2w, n/2, n-w, n-1, n}
            let k = match sel {
                0 => 0,
                1 => 1,
                2 => w,
                3 => 2 * w,
                4 => n / 2,
                5 => n.saturating_sub(w),
                6 => n.saturating_sub(1),
                7 => n,
                _ => frac(f, n + 1),
            }
            .min(n);
            C06Case { a, k, left }
        }).boxed()
    }
    fn exhaustive_subspaces(&self, tier: Tier) -> Vec<String> {
        vec![format!("all values x all k in 0..=n for n<={} (clipped to capacity) x both directions x 20 types", tier.pick(10, 13))]
    }
    fn enumerate(&self, tier: Tier, sh: &mut Shard, f: &mut dyn FnMut(C06Case) -> bool) {
        let ksmall = tier.pick(10, 13);
        for t in ROUTINE_TIDS {
            let c = fixed_cap(t).unwrap_or(usize::MAX);
            for n in 0..=ksmall.min(c) {
                for a in all_values(n) {
                    if !sh.mine() {
                        continue;
                    }
                    for k in 0..=n {
                        for left in [true, false] {
                            if !f(C06Case { a: Operand::canon(t, a.clone()), k, left }) {
                                return;
                            }
                        }
                    }
                }
            }
        }
        // word-aligned lengths and amounts on vectors with spare capacity / heap-mode Bv
        for t in [TID_D, TID_A] {
            for prov in [Prov::Spare(64), Prov::Spare(200), Prov::LongThenTrunc(64), Prov::LongThenTrunc(200)] {
                if !sh.mine() {
                    continue;
                }
                for n in [63usize, 64, 65, 127, 128, 129, 192, 256, 320] {
                    for k in [0usize, 1, 63, 64, 65, 128, 192, n / 2, n.saturating_sub(64), n - 1, n] {
                        if k > n {
                            continue;
                        }
                        for a in three_values(n) {
                            for left in [true, false] {
                                if !f(C06Case { a: Operand { ty: t, bits: a.clone(), prov: prov.clone() }, k, left }) {
                                    return;
                                }
                            }
                        }
                    }
                }
            }
        }
        for (t, n) in dense_lengths(tier) {
            if !sh.mine() {
                continue;
            }
            let a = dense_value(n);
            for k in [1usize, 64, n / 2, n] {
                for left in [true, false] {
                    if !f(C06Case { a: Operand::canon(t, a.clone()), k, left }) {
                        return;
                    }
                }
            }
        }
        for t in [TID_D, TID_A, 18u8] {
            let c = fixed_cap(t).unwrap_or(usize::MAX);
            for n in LONG_LENS {
                if !sh.mine() {
                    continue;
                }
                let n = n.min(c);
                for a in long_values(n) {
                    for k in [0usize, 1, 63, 64, 65, 1000, 1024, 1025, n / 2, n - 1024, n - 64, n - 1, n] {
                        if k > n {
                            continue;
                        }
                        for left in [true, false] {
                            if !f(C06Case { a: Operand::canon(t, a.clone()), k, left }) {
                                return;
                            }
                        }
                    }
                }
            }
        }
        // the 70 400-bit fixed type
        for n in HUGE_TYPE_LENS {
            if !sh.mine() {
                continue;
            }
            for a in [long_values(n)[1].clone(), long_values(n)[3].clone()] {
                for k in [0usize, 1, 63, 64, 65, 1537, 4096, 4099, 8200, 65536, 65541, n / 2, n.saturating_sub(64), n - 1, n] {
                    if k > n {
                        continue;
                    }
                    for left in [true, false] {
                        if !f(C06Case { a: Operand::canon(TID_HUGE, a.clone()), k, left }) {
                            return;
                        }
                    }
                }
            }
        }
        // geometric ladder of lengths up to megabits on the unbounded types
        for (t, n) in ladder_lengths(tier) {
            if !sh.mine() {
                continue;
            }
            let a = dense_value(n);
            for (j, k) in [1usize, 64, 4099, 65541, n / 2 + 3, n - 65, n - 1].into_iter().enumerate() {
                if k > n {
                    continue;
                }
                let prov = if j % 3 == 2 { Prov::Spare(200) } else { Prov::Canon };
                if !f(C06Case { a: Operand { ty: t, bits: a.clone(), prov }, k, left: (j + n) % 2 == 0 }) {
                    return;
                }
            }
        }
        let nmax = tier.pick(100, 320);
        for t in ROUTINE_TIDS {
            let c = fixed_cap(t).unwrap_or(nmax).min(nmax);
            let w = WORD_BITS[t as usize];
            for n in (ksmall + 1)..=c {
                if !sh.mine() {
                    continue;
                }
                for k in 0..=n {
                    // a run of ones ending at k / k-1 / k+1 / the next word boundary
                    let mut ends = vec![k, k.saturating_sub(1), (k + 1).min(n), ((k / w) + 1) * w];
                    ends.retain(|&e| e <= n);
                    ends.sort();
                    ends.dedup();
                    for e in ends {
                        let start = e.saturating_sub(w + 3);
                        let a = Bits((0..n).map(|i| i >= start && i < e).collect());
                        for left in [true, false] {
                            if !f(C06Case { a: Operand::canon(t, a.clone()), k, left }) {
                                return;
                            }
                        }
                    }
                }
            }
        }
    }
    fn check(&self, case: &C06Case, st: &mut Stats) -> CheckResult {
        let C06Case { a, k, left } = case;
        let n = a.len();
        ensure!(*k <= n, "bad-case", "rotation amount beyond the length is outside the property");
        let dir = if *left { "rotl" } else { "rotr" };
        let what = format!("{}:{}", dir, kind_of(a.ty));
        let za = build_checked(a, "subject")?;
        let e = model_rot(&a.bits, *k, *left);
        let mut r = za.clone();
        if let Err(p) = rot(&mut r, *k, *left) {
            fail!(format!("{}/panic", what), "{}.{}({}) panicked: {}", a.describe(), dir, k, p);
        }
        battery_z(&r, &e, strength(st), &what).map_err(|mut v| {
            v.msg = format!("{}.{}({}): {}", a.describe(), dir, k, v.msg);
            v
        })?;
        ensure!(read_bits_z(&r).popcount() == a.bits.popcount(), format!("{}/popcount", what), "{}.{}({}) changed the number of set bits", a.describe(), dir, k);
        // inverse
        let mut back = r.clone();
        if let Err(p) = rot(&mut back, *k, !*left) {
            fail!(format!("{}/panic", what), "{}.{}({}) then the inverse rotation panicked: {}", a.describe(), dir, k, p);
        }
        battery_z(&back, &a.bits, strength(st), &format!("{}+inverse", what)).map_err(|mut v| {
            v.msg = format!("{}.{}({}) followed by the opposite rotation by {} is not the identity: {}", a.describe(), dir, k, k, v.msg);
            v
        })?;
        // rotl(k) == rotr(n-k)
        let mut other = za.clone();
        if let Err(p) = rot(&mut other, n - *k, !*left) {
            fail!(format!("{}/panic", what), "{}: opposite rotation by n-k={} panicked: {}", a.describe(), n - *k, p);
        }
        battery_z(&other, &e, strength(st), &format!("{}~opposite(n-k)", what)).map_err(|mut v| {
            v.msg = format!("{}: {}({}) differs from the opposite rotation by n-k={}: {}", a.describe(), dir, k, n - *k, v.msg);
            v
        })?;
        let w = WORD_BITS[a.ty as usize];
        st.class(dir);
        st.class(a.prov.class());
        st.class_if(n == 0, "empty");
        st.class_if(*k == 0 || *k == n, "k in {0,n}");
        st.class_if(n > w && *k % w != 0, "multi-word, k not word aligned");
        st.note(case, n > 1 && *k > 0 && *k < n && e != a.bits);
        Ok(())
    }
}
