//! C03 (no hidden state after any history), C07 (edits behave like list edits) and C18 (capacity
//! management) share the history interpreter; they differ in operation alphabet, extra
//! invariants and non-triviality rule.

use crate::battery::{battery_z, Strength};
use crate::engine::*;
use crate::gen::*;
use crate::interp::*;
use crate::spec::*;
use crate::stats::Stats;
use proptest::collection::vec;
use proptest::prelude::*;
use vcore::*;

#[derive(Clone, Copy, PartialEq, Eq, Debug)]
pub enum Mode {
    /// C03: whole public API
    All,
    /// C07: editing operations only
    Edits,
    /// C18: capacity management interleaved with everything, unbounded types favoured
    Capacity,
}

fn limits(tier: Tier) -> Limits {
    Limits { lcap: tier.pick(700, 2600), gmax: tier.pick(150, 400) }
}

/// Limits as a pure function of the history: long histories (thorough tier) and the enumerated
/// "unbounded growth" cases (recognisable by an absolute ResizeTo beyond the routine bound) get
/// more room.
fn is_big(h: &History) -> bool {
    big_size(h) > 2600
}

/// The largest absolute size a history mentions (0 for routine, fraction-driven histories).
fn big_size(h: &History) -> usize {
    let mut m = match &h.init {
        Init::WithCapacity(c) => *c,
        Init::Built(b, _) => b.len(),
        Init::Zeros(n) | Init::Ones(n) | Init::Repeat(_, n) => *n,
        _ => 0,
    };
    if m <= 2600 {
        m = 0;
    }
    for o in &h.ops {
        let x = match o {
            Op::ResizeTo(t, _) => *t,
            Op::Reserve(k) if *k > 4096 => *k as usize,
            Op::Append(x) | Op::Prepend(x) | Op::Insert(_, x) => x.bits.len(),
            Op::Extend(b, _) => b.len(),
            _ => 0,
        };
        if x > 2600 {
            m = m.max(x);
        }
    }
    m
}

fn limits_for(h: &History, long_at: usize) -> Limits {
    let big = big_size(h);
    if big > 0 {
        Limits { lcap: 140_000.max(2 * big + 1000), gmax: 400 }
    } else {
        limits(if h.ops.len() > long_at { Tier::Thorough } else { Tier::Quick })
    }
}

/// Lengths for the long-vector histories: the 70 400-bit fixed type at its thresholds and a
/// geometric ladder on the unbounded types (up to 2^19 bits quick / 2^21 thorough: every step
/// of a history is followed by an observer battery).
fn long_history_lengths(tier: Tier) -> Vec<(Tid, usize)> {
    let mut v: Vec<(Tid, usize)> = HUGE_TYPE_LENS.iter().map(|&n| (TID_HUGE, n)).collect();
    let top = (1usize << tier.pick(19, 21)) + (1 << 18);
    v.extend(ladder_lengths(tier).into_iter().filter(|&(_, n)| n <= top));
    v
}

/// Operands used inside histories: short, boundary-heavy, any type, any provenance.
fn arb_hist_operand() -> BoxedStrategy<Operand> {
    let len = prop_oneof![
        3 => Just(0usize),
        8 => prop_oneof![Just(1usize), Just(7), Just(8), Just(9), Just(15), Just(16), Just(17), Just(31), Just(32), Just(33), Just(63), Just(64), Just(65), Just(127), Just(128), Just(129), Just(200)],
        8 => 0usize..90,
    ];
    (arb_tid(), len, arb_valpat(), arb_prov()).prop_map(|(t, n, vp, prov)| {
        let n = n.min(fixed_cap(t).unwrap_or(usize::MAX));
        Operand { ty: t, bits: realize_val(&vp, n, WORD_BITS[t as usize]), prov }
    }).boxed()
}

fn arb_hint() -> impl Strategy<Value = Hint> {
    prop_oneof![Just(Hint::Exact), Just(Hint::Zero), Just(Hint::Partial), Just(Hint::LooseUpper)]
}

fn arb_small_bits() -> impl Strategy<Value = Bits> {
    (0usize..80, arb_valpat()).prop_map(|(n, vp)| realize_val(&vp, n, 8))
}

fn arb_edit_op() -> BoxedStrategy<Op> {
    prop_oneof![
        3 => any::<bool>().prop_map(Op::Push),
        3 => Just(Op::Pop),
        2 => (any::<u16>(), any::<bool>()).prop_map(|(f, b)| Op::Set(f, b)),
        4 => (any::<u16>(), any::<bool>()).prop_map(|(f, b)| Op::Grow(f, b)),
        3 => any::<u16>().prop_map(Op::ShrinkTo),
        2 => any::<u16>().prop_map(Op::Truncate),
        2 => any::<u16>().prop_map(Op::SignExtend),
        4 => arb_hist_operand().prop_map(Op::Append),
        4 => arb_hist_operand().prop_map(Op::Prepend),
        4 => (any::<u16>(), arb_hist_operand()).prop_map(|(f, o)| Op::Insert(f, o)),
        3 => (arb_small_bits(), arb_hint()).prop_map(|(b, h)| Op::Extend(b, h)),
        1 => arb_hint().prop_map(Op::Recollect),
    ]
    .boxed()
}

fn arb_sh_form() -> impl Strategy<Value = ShForm> {
    (0usize..6).prop_map(|i| SH_FORMS[i])
}

fn arb_other_op(tier: Tier) -> BoxedStrategy<Op> {
    let _ = tier;
    let rhs = prop_oneof![3 => arb_hist_operand().prop_map(Rhs::V), 1 => arb_nat().prop_map(Rhs::N)];
    prop_oneof![
        2 => any::<u16>().prop_map(Op::SplitOffKeepLow),
        2 => any::<u16>().prop_map(Op::SplitOffKeepHigh),
        2 => (any::<u16>(), any::<u16>()).prop_map(|(a, b)| Op::CopyRange(a, b)),
        1 => (any::<bool>(), arb_nat(), arb_sh_form()).prop_map(|(left, amt, form)| Op::Shift { left, amt, form }),
        4 => (any::<bool>(), any::<u16>(), arb_nat_ty(), arb_sh_form()).prop_map(|(left, f, ty, form)| Op::ShiftRel { left, f, ty, form }),
        2 => (any::<bool>(), any::<bool>()).prop_map(|(left, bit)| Op::ShiftIn { left, bit }),
        3 => (any::<bool>(), any::<u16>()).prop_map(|(left, k)| Op::Rot { left, k }),
        2 => any::<bool>().prop_map(Op::Not),
        10 => (0usize..8, 0usize..6, rhs).prop_map(|(o, f, rhs)| Op::Bin { op: BIN_OPS[o], form: FORMS[f], rhs }),
        2 => (0..NT).prop_map(Op::Via),
        1 => any::<bool>().prop_map(Op::WriteRead),
        1 => any::<bool>().prop_map(Op::FormatParse),
        1 => Just(Op::CloneReplace),
        2 => (any::<bool>(), arb_hist_operand()).prop_map(|(into, other)| Op::CloneFrom { into, other }),
    ]
    .boxed()
}

fn arb_cap_op() -> BoxedStrategy<Op> {
    prop_oneof![
        3 => prop_oneof![Just(0u16), Just(1), Just(63), Just(64), Just(65), Just(127), Just(128), Just(129), Just(200), 0u16..4096].prop_map(Op::Reserve),
        2 => Just(Op::ShrinkToFit),
    ]
    .boxed()
}

fn arb_op(mode: Mode, tier: Tier) -> BoxedStrategy<Op> {
    match mode {
        Mode::Edits => arb_edit_op(),
        Mode::All => prop_oneof![5 => arb_edit_op(), 8 => arb_other_op(tier), 2 => arb_cap_op()].boxed(),
        Mode::Capacity => prop_oneof![4 => arb_edit_op(), 4 => arb_other_op(tier), 5 => arb_cap_op()].boxed(),
    }
}

fn arb_init() -> BoxedStrategy<Init> {
    let small_len = prop_oneof![Just(0usize), Just(1), Just(8), Just(63), Just(64), Just(65), Just(127), Just(128), Just(129), Just(130), 0usize..260];
    prop_oneof![
        2 => small_len.clone().prop_map(Init::Zeros),
        2 => small_len.clone().prop_map(Init::Ones),
        1 => (any::<bool>(), small_len.clone()).prop_map(|(b, n)| Init::Repeat(b, n)),
        8 => (small_len.clone(), arb_valpat(), arb_prov()).prop_map(|(n, vp, prov)| Init::Built(realize_val(&vp, n, 64), prov)),
        1 => "[0-9a-fA-F]{0,40}".prop_map(Init::FromHex),
        1 => (vec(any::<u8>(), 0..30), any::<bool>()).prop_map(|(b, big)| Init::FromBytes(b, big)),
        1 => arb_nat().prop_map(Init::FromNat),
        1 => (arb_nat_ty(), vec(any::<u128>(), 0..4)).prop_map(|(t, xs)| Init::FromSlice(t, xs.into_iter().map(|x| Nat::new(t, x)).collect())),
        2 => prop_oneof![Just(0usize), Just(64), Just(128), Just(129), 0usize..1000].prop_map(Init::WithCapacity),
    ]
    .boxed()
}

fn arb_history(mode: Mode, tier: Tier) -> BoxedStrategy<History> {
    let maxops = match mode {
        Mode::All => tier.pick(12, 40),
        Mode::Edits => tier.pick(15, 50),
        Mode::Capacity => tier.pick(14, 40),
    };
    let tid = match mode {
        Mode::Capacity => prop_oneof![2 => (0usize..26).prop_map(|i| ROUTINE_FIXED[i]), 5 => Just(TID_D), 6 => Just(TID_A)].boxed(),
        _ => arb_tid().boxed(),
    };
    (tid, arb_init(), vec(arb_op(mode, tier), 1..maxops)).prop_map(|(ty, init, ops)| History { ty, init, ops }).boxed()
}

/// Run one history; returns aggregated step information for the non-triviality rules.
pub struct Summary {
    pub state_changes: u32,
    pub risk_steps: u32,
    pub grew_cross: u32,
    pub shrank_cross: u32,
    pub shrank: u32,
    pub foreign: u32,
    pub empty_operand: u32,
    pub cap_then_mutation: bool,
    pub went_heap: bool,
    pub went_inline_again: bool,
}

pub fn run_history(h: &History, st: &mut Stats, mode: Mode, lim: &Limits, id: &str) -> Result<Summary, Violation> {
    let ctx = |i: usize, op: &Op, before: &Bits, mut e: Violation| -> Violation {
        e.msg = format!("{} history on {}: init {:?}; step #{} {:?} applied to model state {}: {}", id, NAMES[h.ty as usize], h.init, i, op, short(before), e.msg);
        e
    };
    let (mut z, mut m) = init(h.ty, &h.init)?;
    battery_z(&z, &m, Strength::Full, "history-init").map_err(|mut e| {
        e.msg = format!("{} history on {}: after initial constructor {:?}: {}", id, NAMES[h.ty as usize], h.init, e.msg);
        e
    })?;
    let mut s = Summary { state_changes: 0, risk_steps: 0, grew_cross: 0, shrank_cross: 0, shrank: 0, foreign: 0, empty_operand: 0, cap_then_mutation: false, went_heap: false, went_inline_again: false };
    let mut cap_seen = false;
    let mut was_heap = z_match!(&z, x => x.is_heap()).unwrap_or(false);
    let last = h.ops.len().saturating_sub(1);
    for (i, op) in h.ops.iter().enumerate() {
        let before = m.clone();
        let info = step(&mut z, &mut m, op, lim).map_err(|e| ctx(i, op, &before, e))?;
        let strength = if i == last || info.risk || !st.light && i % 4 == 3 { Strength::Full } else { Strength::Light };
        battery_z(&z, &m, strength, &format!("history:{}", op_name_of(op))).map_err(|e| ctx(i, op, &before, e))?;
        // C18 invariants that hold after EVERY step
        if matches!(op, Op::Reserve(_) | Op::ShrinkToFit) && m != before {
            return Err(ctx(i, op, &before, Violation { sig: format!("history:{}/value-changed", op_name_of(op)), msg: "capacity management changed the value".into() }));
        }
        st.class(&format!("op:{}", op_name_of(op)));
        if info.skipped {
            st.class("op skipped (no room / not applicable / zero divisor)");
        }
        s.state_changes += info.changed as u32;
        s.risk_steps += info.risk as u32;
        s.grew_cross += info.grew_cross as u32;
        s.shrank_cross += info.shrank_cross as u32;
        s.shrank += info.shrank as u32;
        s.foreign += info.foreign_operand as u32;
        s.empty_operand += info.empty_operand as u32;
        if info.cap_op {
            cap_seen = true;
        } else if cap_seen && info.mutating {
            s.cap_then_mutation = true;
        }
        if let Some(hp) = z_match!(&z, x => x.is_heap()) {
            if hp && !was_heap {
                s.went_heap = true;
            }
            if !hp && was_heap {
                s.went_inline_again = true;
            }
            was_heap = hp;
        }
    }
    if mode == Mode::All || mode == Mode::Capacity {
        growth_probes(&z, &m, lim).map_err(|mut e| {
            e.msg = format!("{} history on {}: init {:?}, ops {:?}; at the end: {}", id, NAMES[h.ty as usize], h.init, h.ops, e.msg);
            e
        })?;
    }
    Ok(s)
}

fn common_classes(h: &History, s: &Summary, st: &mut Stats) {
    st.class(&format!("subject:{}", crate::props::common::kind_of(h.ty)));
    st.class_if(s.risk_steps > 0, "has padding-risk step");
    st.class_if(s.went_heap, "Bv switched inline->heap");
    st.class_if(s.went_inline_again, "Bv switched heap->inline");
    st.class_if(s.empty_operand > 0, "append/prepend/insert with an empty operand");
    st.class_if(s.grew_cross > 0 && s.shrank_cross > 0, "length crossed a word/inline boundary both ways");
}

/// A small concrete operation alphabet for the exhaustive short-history enumeration: every
/// operation family once or twice, with arguments placed at the interesting ends.
fn small_alphabet(with_cap_ops: bool) -> Vec<Op> {
    let opnd = |t: Tid, n: usize| Operand::canon(t, realize_val(&ValPat::Alt(true), n, 8));
    let ones = |t: Tid, n: usize| Operand::canon(t, Bits::ones(n));
    let mut v = vec![
        Op::Push(true),
        Op::Pop,
        Op::Set(65535, true),
        Op::Grow(3000, true),
        Op::Grow(65535, false),
        Op::ShrinkTo(32768),
        Op::ShrinkTo(0),
        Op::Truncate(20000),
        Op::SignExtend(40001),
        Op::Append(opnd(0, 5)),
        Op::Append(ones(TID_D, 70)),
        Op::Prepend(opnd(TID_A, 9)),
        Op::Prepend(Operand::canon(9, Bits::new())),
        Op::Insert(32768, ones(5, 3)),
        Op::Extend(Bits::ones(10), Hint::Partial),
        Op::Extend(Bits::ones(9), Hint::LooseUpper),
        Op::SplitOffKeepLow(32768),
        Op::SplitOffKeepHigh(32768),
        Op::CopyRange(8000, 60000),
        Op::ShiftRel { left: true, f: 3000, ty: NatTy::U8, form: ShForm::AssignVal },
        Op::ShiftRel { left: false, f: 3000, ty: NatTy::U64, form: ShForm::RefVal },
        Op::Shift { left: true, amt: Nat::new(NatTy::U32, 64), form: ShForm::OwnVal },
        Op::Shift { left: false, amt: Nat::new(NatTy::Usize, 64), form: ShForm::RefRef },
        Op::ShiftIn { left: true, bit: true },
        Op::ShiftIn { left: false, bit: true },
        Op::Rot { left: true, k: 5000 },
        Op::Rot { left: false, k: 33000 },
        Op::Not(true),
        Op::Not(false),
        Op::Bin { op: BinOp::Add, form: Form::AssignRef, rhs: Rhs::N(Nat::new(NatTy::U8, 1)) },
        Op::Bin { op: BinOp::Sub, form: Form::RefRef, rhs: Rhs::V(ones(TID_D, 200)) },
        Op::Bin { op: BinOp::Mul, form: Form::OwnOwn, rhs: Rhs::V(Operand::canon(13, Bits::from_u128(0xffff_ffff_ffff_fffb, 130))) },
        Op::Bin { op: BinOp::Or, form: Form::AssignOwn, rhs: Rhs::V(ones(11, 192)) },
        Op::Bin { op: BinOp::Xor, form: Form::RefOwn, rhs: Rhs::V(ones(TID_A, 140)) },
        Op::Bin { op: BinOp::And, form: Form::OwnRef, rhs: Rhs::V(opnd(2, 20)) },
        Op::Bin { op: BinOp::Div, form: Form::RefRef, rhs: Rhs::N(Nat::new(NatTy::U16, 3)) },
        Op::Bin { op: BinOp::Rem, form: Form::AssignRef, rhs: Rhs::V(Operand::canon(TID_A, Bits::from_u128(7, 150))) },
        Op::Via(TID_D),
        Op::Via(13),
        Op::WriteRead(true),
        Op::Recollect(Hint::Zero),
        Op::CloneFrom { into: true, other: ones(TID_D, 200) },
        Op::CloneFrom { into: false, other: opnd(TID_D, 70) },
    ];
    if with_cap_ops {
        v.extend([Op::Reserve(1), Op::Reserve(64), Op::Reserve(200), Op::ShrinkToFit]);
    }
    v
}

/// All histories of 1, 2 (and, for `three`, 3) operations over the small alphabet from a set of
/// boundary start lengths.
fn enumerate_short_histories(sh: &mut Shard, f: &mut dyn FnMut(History) -> bool, types: &[Tid], with_cap_ops: bool, three: bool) {
    let alpha = small_alphabet(with_cap_ops);
    for &ty in types {
        let c = fixed_cap(ty).unwrap_or(usize::MAX);
        for n0 in [0usize, 1, 7, 8, 9, 15, 16, 17, 63, 64, 65, 127, 128, 129] {
            if n0 > c {
                continue;
            }
            let init = Init::Built(realize_val(&ValPat::Dense(vec![0xD1B5_4A32_D192_ED03, 0x9E37_79B9_7F4A_7C15, 0x8CB9_2BA7_2F3D_8DD7]), n0, 8), Prov::Canon);
            for a in &alpha {
                if !sh.mine() {
                    continue;
                }
                if !f(History { ty, init: init.clone(), ops: vec![a.clone()] }) {
                    return;
                }
                for b in &alpha {
                    if !f(History { ty, init: init.clone(), ops: vec![a.clone(), b.clone()] }) {
                        return;
                    }
                    if three {
                        for c3 in &alpha {
                            if !f(History { ty, init: init.clone(), ops: vec![a.clone(), b.clone(), c3.clone()] }) {
                                return;
                            }
                        }
                    }
                }
            }
        }
    }
}

// ------------------------------------------------------------------------------------------------

pub struct C03;
impl Property for C03 {
    type Case = History;
    fn id(&self) -> &'static str {
        "C03"
    }
    fn rule(&self) -> String {
        "Cases (stateful): subject type, an initial constructor (zeros, ones, repeat, any operand provenance incl. from_binary/push/collect/conversion/read-with-surplus-bits/spare capacity, from_hex, from_bytes, From<uN>, from slice, with_capacity) and a sequence of 1..12 (quick)/1..40 (thorough) operations drawn from the whole public API: edits (push, pop, set, resize, truncate, sign_extend, append/prepend/insert with an operand of any type, extend, collect, split_off keeping either half, copy_range), shifts by each integer type, shl_in/shr_in, rotations, !, the eight binary operators in a generated form with an operand of any zoo type / native type / length / provenance, reserve, shrink_to_fit, round trip through another implementation, write->read, format->parse, clone. Oracle: the bit-list model advanced by the reference semantics of each op; after EVERY step the light observer battery (all raw-storage readers: is_zero, to_vec, hex, ==/cmp/hash against a fresh vector) and periodically / at padding-risk steps / at the end the full battery; at the end every growing operation (resize Zero/One, push, append, sign_extend, extend) is applied to a clone and must expose only the requested fill bits. Non-trivial: >= 2 state-changing steps and >= 1 padding-risk step (logic/arithmetic with an RHS longer than the subject or of another type; shift/rotate/! at a length that is not a storage-word multiple). Distinct by hash of the history.".into()
    }
    fn random_cases(&self, tier: Tier) -> u64 {
        tier.pick(120000, 4800000)
    }
    fn strategy(&self, tier: Tier) -> BoxedStrategy<History> {
        arb_history(Mode::All, tier)
    }
    fn exhaustive_subspaces(&self, tier: Tier) -> Vec<String> {
        vec![format!("all histories of length 1 and 2{} over a 47-operation alphabet (every operation family, capacity operations included) from 14 boundary start lengths {{0,1,7,8,9,15,16,17,63,64,65,127,128,129}} on {}", if tier == Tier::Thorough { " and 3" } else { "" }, if tier == Tier::Thorough { "Bvf<u8,2>, Bvf<u8,17>, Bvf<u64,2>, Bvf<u128,2>, Bvd, Bv" } else { "Bvf<u8,2>, Bvf<u64,2>, Bvf<u8,17>, Bvd, Bv" })]
    }
    fn enumerate(&self, tier: Tier, sh: &mut Shard, f: &mut dyn FnMut(History) -> bool) {
        if tier == Tier::Thorough {
            enumerate_short_histories(sh, f, &[1, 4, 10, 13, TID_D, TID_A], true, true);
        } else {
            enumerate_short_histories(sh, f, &[1, 10, 4, TID_D, TID_A], true, false);
        }
        // long vectors (the 70 400-bit fixed type at its thresholds, a geometric ladder of lengths
        // on Bvd/Bv): one operation of every family per history, observer battery after each
        for (j, (ty, n)) in long_history_lengths(tier).into_iter().enumerate() {
            if !sh.mine() {
                continue;
            }
            let other = if j % 2 == 0 { TID_D } else { TID_A };
            let a = dense_value(n);
            let provs = [Prov::Canon, Prov::Spare(200), Prov::ReadSurplus(j % 2 == 0), Prov::ShrunkFrom(140_000)];
            let families: Vec<Vec<Op>> = vec![
                vec![Op::ShiftRel { left: true, f: 3000, ty: NatTy::U64, form: ShForm::AssignVal }, Op::Bin { op: BinOp::Or, form: Form::AssignRef, rhs: Rhs::V(Operand::canon(other, Bits::ones(n + 1))) }, Op::ShiftRel { left: false, f: 40000, ty: NatTy::Usize, form: ShForm::RefVal }, Op::Grow(65535, false)],
                vec![Op::Rot { left: true, k: 5000 }, Op::Not(j % 2 == 0), Op::Rot { left: false, k: 33000 }, Op::Bin { op: BinOp::Add, form: Form::RefRef, rhs: Rhs::V(Operand::canon(other, dense_value(n / 2 + 9))) }, Op::ShiftIn { left: true, bit: true }],
                vec![Op::WriteRead(j % 2 == 0), Op::CloneFrom { into: true, other: Operand::canon(ty, Bits::ones(n + 300)) }, Op::Push(true), Op::FormatParse(true), Op::SplitOffKeepLow(30001)],
                vec![Op::CopyRange(100, 65000), Op::Via(other), Op::Bin { op: BinOp::Xor, form: Form::OwnRef, rhs: Rhs::V(Operand::canon(ty, Bits::ones(n))) }, Op::CloneFrom { into: false, other: Operand::canon(ty, dense_value(n / 3 + 1)) }, Op::Recollect(Hint::Partial), Op::SplitOffKeepHigh(20001)],
                vec![Op::ShrinkTo(3001), Op::Grow(65535, false), Op::Bin { op: BinOp::Sub, form: Form::AssignOwn, rhs: Rhs::N(Nat::new(NatTy::U8, 1)) }, Op::SignExtend(65535), Op::Truncate(700), Op::Bin { op: BinOp::Mul, form: Form::RefRef, rhs: Rhs::V(Operand::canon(other, Bits::from_u128(0xffff_ffff_ffff_fffb, 130))) }],
            ];
            for (i, ops) in families.into_iter().enumerate() {
                if !f(History { ty, init: Init::Built(a.clone(), provs[(i + j) % 4].clone()), ops }) {
                    return;
                }
            }
        }
    }
    fn check(&self, h: &History, st: &mut Stats) -> CheckResult {
        let s = run_history(h, st, Mode::All, &limits_for(h, 14), "C03")?;
        common_classes(h, &s, st);
        st.note(h, s.state_changes >= 2 && s.risk_steps >= 1);
        Ok(())
    }
    fn assumptions(&self) -> Vec<String> {
        vec![
            "trusted bridge: zeros(n)+set(i), len()+get(i)".into(),
            "sign_extend on an empty vector has no specified fill: only the new length is asserted and the model adopts the observed bits".into(),
            "lengths of the unbounded types are kept below a harness limit inside histories (cost control)".into(),
        ]
    }
}

pub struct C07;
impl Property for C07 {
    type Case = History;
    fn id(&self) -> &'static str {
        "C07"
    }
    fn rule(&self) -> String {
        "Cases (stateful): subject type, initial constructor, then 1..15 (quick)/1..50 (thorough) editing operations: push, pop, set, resize up/down, truncate (also beyond the length), sign_extend (also below the length), append/prepend/insert with an operand of ANY zoo type, length (0 included) and provenance, extend from iterators with exact / zero / partial / astronomically loose size hints, collect. For Bvd/Bv the length wanders across 64-bit word boundaries and the 128-bit inline limit in both directions. Oracle: Vec<bool> edits; after each step exact length, bits and the light battery, full battery periodically and at the end; pop's return value. Non-trivial: >= 1 growth crossing a storage-word or inline/heap boundary, >= 1 shrink, and >= 1 append/prepend/insert whose operand type differs from the subject's. Distinct by hash of the history.".into()
    }
    fn random_cases(&self, tier: Tier) -> u64 {
        tier.pick(120000, 4800000)
    }
    fn strategy(&self, tier: Tier) -> BoxedStrategy<History> {
        arb_history(Mode::Edits, tier)
    }
    fn exhaustive_subspaces(&self, _tier: Tier) -> Vec<String> {
        vec!["unbounded growth: Bvd and Bv grown from {0,1,64,127,128,129,200} to {4095,4096,4097,65539} bits by resize(0|1)/append/prepend/insert/extend, then push/set/pop/resize/sign_extend/truncate back down".into(), "append / prepend / insert-at-{0,mid,len} of every operand length 0..=min(room,70) of 4 operand types onto every subject length 0..=min(C,140) for all 20 subject types (single-step histories)".into()]
    }
    fn enumerate(&self, tier: Tier, sh: &mut Shard, f: &mut dyn FnMut(History) -> bool) {
        for ty in ROUTINE_TIDS {
            let c = fixed_cap(ty).unwrap_or(140).min(140);
            for n in 0..=c {
                if !sh.mine() {
                    continue;
                }
                let a = realize_val(&ValPat::Alt(true), n, 8);
                let room = fixed_cap(ty).map_or(70, |cc| (cc - n).min(70));
                for k in 0..=room {
                    let ot = [0u8, 9, TID_D, TID_A][k % 4];
                    let ot = if fixed_cap(ot).map_or(false, |oc| oc < k) { TID_D } else { ot };
                    let o = Operand::canon(ot, realize_val(&ValPat::Runs(true, vec![40, 8, 200]), k, 8));
                    for op in [Op::Append(o.clone()), Op::Prepend(o.clone()), Op::Insert(0, o.clone()), Op::Insert(32768, o.clone()), Op::Insert(65535, o.clone())] {
                        if !f(History { ty, init: Init::Built(a.clone(), Prov::Canon), ops: vec![op] }) {
                            return;
                        }
                    }
                }
            }
        }
        // "the resulting length is unbounded": dynamic and auto vectors grown to 4 095..65 539 bits
        // by every growing edit, from both sides of the inline limit, then edited and shrunk again
        for ty in [TID_D, TID_A] {
            for start in [0usize, 1, 64, 127, 128, 129, 200] {
                for target in [4095usize, 4096, 4097, 65_539] {
                    if !sh.mine() {
                        continue;
                    }
                    let a = realize_val(&ValPat::Alt(true), start, 8);
                    let big = Operand::canon(TID_D, realize_val(&ValPat::Runs(true, vec![200, 8, 64, 250]), target - start, 8));
                    let tails: Vec<Op> = vec![Op::Push(true), Op::Set(65535, false), Op::Pop, Op::ResizeTo(target + 1, true), Op::ShrinkTo(30000), Op::SignExtend(60000), Op::Truncate(100), Op::ResizeTo(start, false)];
                    for grow in [Op::ResizeTo(target, true), Op::ResizeTo(target, false), Op::Append(big.clone()), Op::Prepend(big.clone()), Op::Insert(32768, big.clone()), Op::Extend(big.bits.clone(), Hint::Partial)] {
                        let mut ops = vec![grow];
                        ops.extend(tails.iter().cloned());
                        if !f(History { ty, init: Init::Built(a.clone(), Prov::Canon), ops }) {
                            return;
                        }
                    }
                }
            }
        }
        // the same on the 70 400-bit fixed type and on a geometric ladder of lengths: one growing
        // edit (rotating over the six kinds) from a short start, then a shrink to an unaligned
        // length that frees most of the storage, zero-filling regrowth and a final shrink
        for (j, (ty, n)) in long_history_lengths(tier).into_iter().enumerate() {
            if !sh.mine() {
                continue;
            }
            for start in [1usize, 129] {
                let a = realize_val(&ValPat::Alt(true), start, 8);
                let big = Operand::canon(if j % 2 == 0 { TID_D } else { TID_A }, realize_val(&ValPat::Runs(true, vec![200, 8, 64, 250]), n - start, 8));
                let grow = match (j + start) % 6 {
                    0 => Op::ResizeTo(n, true),
                    1 => Op::Append(big.clone()),
                    2 => Op::Extend(big.bits.clone(), Hint::Partial),
                    3 => Op::Prepend(big.clone()),
                    4 => Op::Insert(32768, big.clone()),
                    _ => Op::Extend(big.bits.clone(), Hint::Exact),
                };
                let ops = vec![grow, Op::Push(true), Op::ShrinkTo(3001), Op::ResizeTo(n / 2 + 77, false), Op::SignExtend(60000), Op::Truncate(700), Op::ResizeTo(start, false)];
                if !f(History { ty, init: Init::Built(a.clone(), Prov::Canon), ops }) {
                    return;
                }
            }
        }
    }
    fn check(&self, h: &History, st: &mut Stats) -> CheckResult {
        if is_big(h) {
            st.class("unbounded growth (>= 4095 bits)");
        }
        let s = run_history(h, st, Mode::Edits, &limits_for(h, 16), "C07")?;
        common_classes(h, &s, st);
        st.class_if(s.foreign > 0, "operand of another implementation");
        st.note(h, s.grew_cross >= 1 && s.shrank >= 1 && s.foreign >= 1);
        Ok(())
    }
}

pub struct C18;
impl Property for C18 {
    type Case = History;
    fn id(&self) -> &'static str {
        "C18"
    }
    fn rule(&self) -> String {
        "Cases (stateful; Bvd and Bv favoured, fixed types included for len<=capacity): with_capacity(c) / other constructors, then reserve(k<=4096) and shrink_to_fit interleaved with the whole operation alphabet of C03, lengths crossing 64-bit boundaries and the inline limit both ways. Invariants after every step: len<=capacity; with_capacity(c) gives an empty vector with capacity>=c; reserve(k) leaves the battery unchanged, capacity>=len+k; shrink_to_fit leaves the battery unchanged and capacity <= that of a freshly constructed vector of the same length; no operation on Bvd/Bv panics or errs for lack of room; the model battery after every step (arithmetic after reserve shows here). Capacity after arithmetic and the storage mode of Bv are not asserted. Non-trivial: a reserve/shrink_to_fit followed by >= 1 mutating operation, and the length crossed a storage-word or the inline boundary in both directions. Distinct by hash of the history.".into()
    }
    fn random_cases(&self, tier: Tier) -> u64 {
        tier.pick(120000, 4800000)
    }
    fn strategy(&self, tier: Tier) -> BoxedStrategy<History> {
        arb_history(Mode::Capacity, tier)
    }
    fn exhaustive_subspaces(&self, _tier: Tier) -> Vec<String> {
        vec!["with_capacity(c) for c in {4096, 4100, 2^16, 2^20, 2^23-1, 2^23, 2^23+1, 2^24, 2^26+7}; reserve(k) for 12 values of k on vectors filled to 3000/c-1/c bits of a 4096/4100/8192-bit allocation, followed by growth to len+k, a second reserve, growth, shrink_to_fit".into(), "with_capacity(c) for every c<=600, and reserve(k) for k in a 20-value lattice at every length <=300 followed by each of 6 arithmetic/logic operations with a longer operand, then shrink_to_fit, on Bvd and Bv".into()]
    }
    fn enumerate(&self, tier: Tier, sh: &mut Shard, f: &mut dyn FnMut(History) -> bool) {
        // long vectors: capacity management around a geometric ladder of lengths (and on the
        // 70 400-bit fixed type, where reserve / shrink_to_fit do not exist and are skipped)
        for (j, (ty, n)) in long_history_lengths(tier).into_iter().enumerate() {
            if !sh.mine() {
                continue;
            }
            let other = if j % 2 == 0 { TID_D } else { TID_A };
            let ops = vec![Op::ResizeTo(n - 1, true), Op::Reserve(4096), Op::Push(false), Op::Push(true), Op::Bin { op: BinOp::Add, form: Form::AssignRef, rhs: Rhs::V(Operand::canon(other, Bits::ones(n / 2))) }, Op::ShrinkToFit, Op::ShrinkTo(3001), Op::Reserve(65535), Op::Bin { op: BinOp::Or, form: Form::RefRef, rhs: Rhs::V(Operand::canon(other, Bits::ones(7000))) }, Op::ShrinkToFit, Op::Grow(65535, false), Op::ResizeTo(n / 3 + 5, true)];
            for init in [Init::WithCapacity(n), Init::Built(Bits::ones(70), Prov::HugeSpare(n as u32)), Init::WithCapacity(0)] {
                if !f(History { ty, init, ops: ops.clone() }) {
                    return;
                }
            }
        }
        for ty in [TID_D, TID_A] {
            for c in 0..=600usize {
                if !sh.mine() {
                    continue;
                }
                if !f(History { ty, init: Init::WithCapacity(c), ops: vec![Op::Push(true), Op::Grow(40000, true), Op::ShrinkToFit] }) {
                    return;
                }
            }
            // large allocations: with_capacity far beyond the routine range, and reserve on a vector
            // whose allocation is already thousands of bits (growth-policy code paths)
            for c in [4096usize, 4100, 65_536, 1 << 20, (1 << 23) - 1, 1 << 23, (1 << 23) + 1, 1 << 24, (1 << 26) + 7] {
                if !sh.mine() {
                    continue;
                }
                if !f(History { ty, init: Init::WithCapacity(c), ops: vec![Op::Push(true), Op::Grow(65535, true), Op::ShrinkToFit] }) {
                    return;
                }
            }
            for c0 in [4096usize, 4100, 8192] {
                for fill in [c0 - 1, c0, 3000] {
                    if !sh.mine() {
                        continue;
                    }
                    for k in [1u16, 63, 64, 65, 511, 512, 513, 1000, 1001, 2047, 5000, 9999] {
                        let target = fill + k as usize;
                        let ops = vec![Op::ResizeTo(fill, true), Op::Reserve(k), Op::ResizeTo(target, false), Op::Push(true), Op::Reserve(k), Op::ResizeTo(target + 1 + k as usize, true), Op::ShrinkToFit, Op::ResizeTo(100, false), Op::ShrinkToFit];
                        if !f(History { ty, init: Init::WithCapacity(c0), ops }) {
                            return;
                        }
                    }
                }
            }
            for n in 0..=300usize {
                if !sh.mine() {
                    continue;
                }
                let a = realize_val(&ValPat::Alt(true), n, 8);
                for k in [0u16, 1, 63, 64, 65, 127, 128, 129, 191, 192, 193, 200, 255, 256, 257, 500, 1000, 2000, 4095, 4096] {
                    for (j, bop) in [BinOp::Add, BinOp::Sub, BinOp::Mul, BinOp::And, BinOp::Or, BinOp::Xor].into_iter().enumerate() {
                        let rt = [11u8, 13, 4, TID_D, TID_A, 10][j];
                        let rl = fixed_cap(rt).unwrap_or(n + 130);
                        let rhs = Rhs::V(Operand::canon(rt, Bits::ones(rl)));
                        let ops = vec![Op::Reserve(k), Op::Bin { op: bop, form: FORMS[(j + k as usize) % 6], rhs }, Op::ShrinkToFit, Op::Grow(65535, false)];
                        if !f(History { ty, init: Init::Built(a.clone(), Prov::Canon), ops }) {
                            return;
                        }
                    }
                }
            }
        }
    }
    fn check(&self, h: &History, st: &mut Stats) -> CheckResult {
        // with_capacity postcondition
        if let Init::WithCapacity(c) = &h.init {
            let c = (*c).min(fixed_cap(h.ty).unwrap_or(usize::MAX));
            let (z, m) = init(h.ty, &h.init)?;
            if !m.is_empty() || z.len() != 0 || (!is_fixed(h.ty) && z.capacity() < c) {
                return Err(Violation { sig: "with_capacity".into(), msg: format!("{}::with_capacity({}) gave len {} capacity {}", NAMES[h.ty as usize], c, z.len(), z.capacity()) });
            }
            st.class("with_capacity init");
        }
        let s = run_history(h, st, Mode::Capacity, &limits_for(h, 15), "C18")?;
        common_classes(h, &s, st);
        st.class_if(s.cap_then_mutation, "capacity op followed by a mutation");
        st.note(h, s.cap_then_mutation && s.grew_cross >= 1 && s.shrank_cross >= 1);
        Ok(())
    }
}
