//! C20 - all operator forms agree and borrowed operands are never modified.

use super::common::*;
use crate::battery::{battery_z, Strength};
use crate::engine::*;
use crate::gen::*;
use crate::spec::*;
use crate::stats::Stats;
use crate::{ensure, fail};
use proptest::prelude::*;
use serde::{Deserialize, Serialize};
use vcore::*;

#[derive(Clone, Copy, Debug, Hash, PartialEq, Eq, Serialize, Deserialize)]
pub enum AnyOp {
    Bin(BinOp),
    Shl,
    Shr,
    Not,
}

#[derive(Clone, Debug, Hash, Serialize, Deserialize)]
pub struct C20Case {
    pub a: Operand,
    /// for shifts: must be a native amount; ignored for `Not`
    pub b: Rhs,
    pub op: AnyOp,
}

pub struct C20;

pub fn model_shift(a: &Bits, left: bool, k: u128) -> Bits {
    let n = a.len();
    if k >= n as u128 {
        return Bits::zeros(n);
    }
    let k = k as usize;
    if left {
        Bits((0..n).map(|i| i >= k && a.0[i - k]).collect())
    } else {
        Bits((0..n).map(|i| i + k < n && a.0[i + k]).collect())
    }
}

fn snapshot(z: &Z) -> (Bits, Vec<u8>, usize) {
    (read_bits_z(z), z_match!(z, v => v.to_vec(Endianness::Little)), z.capacity())
}

impl Property for C20 {
    type Case = C20Case;
    fn id(&self) -> &'static str {
        "C20"
    }
    fn rule(&self) -> String {
        "Cases: (LHS operand, RHS vector of any type/length or native integer, operator in {+,-,*,/,%,&,|,^,<<,>>,!}). For each case ALL forms are applied side by side: &a.&b, a.&b, &a.b, a.b, a.=&b, a.=b (6 shift forms; 2 for !); for a native x additionally the same operator with a vector built from x as Bvd, Bv and Bvf<u64,3>, and for shifts the same amount in every native type that can hold it. Oracle: every form's result equals the model result (same length, same bits, light battery) - or every form panics when the divisor is zero - and the operands re-read after all by-reference uses and after in-place operations on clones equal their pre-call snapshots (bits, bytes, capacity). Enumerated: all (n,a,m,b) n,m<=3 (quick)/<=5 (thorough) x 20x20 pairings x 8 binary operators x 6 forms, and shifts/! on all values n<=4/6 x all amounts 0..n+1 x 6 amount types x 6 forms; long vectors: 1100..4097 bits on Bvd/Bv/the 2560-bit type, the 70 400-bit fixed type at 7 lengths and a geometric ladder of lengths around every power of two from 2^14 to 2^19 (thorough 2^21) bits on Bvd/Bv with 7 shift amounts, ! and the binary operators (division up to 4200 bits, multiplication up to 2^17). Non-trivial: n>0 and the result differs from a. Distinct by hash of the case.".into()
    }
    fn random_cases(&self, tier: Tier) -> u64 {
        tier.pick(125000, 4800000)
    }
    fn strategy(&self, tier: Tier) -> BoxedStrategy<C20Case> {
        let bin = (arb_operand(tier), arb_rhs(tier), 0usize..8).prop_map(|(mut a, b, o)| {
            if matches!(BIN_OPS[o], BinOp::Div | BinOp::Rem) {
                clamp_huge_dividend(&mut a);
            }
            C20Case { a, b, op: AnyOp::Bin(BIN_OPS[o]) }
        });
        let lmax = lmax_dyn(tier);
        let sh = (arb_operand(tier), arb_nat(), any::<u16>(), any::<bool>(), any::<bool>()).prop_map(move |(a, x, f, rel, left)| {
            // half of the amounts are placed relative to the length (0..=n+1)
            let _ = lmax;
            let amt = if rel { Nat::new(x.ty, (frac(f, a.len() + 2) as u128).min(x.ty.maxv())) } else { x };
            C20Case { a, b: Rhs::N(amt), op: if left { AnyOp::Shl } else { AnyOp::Shr } }
        });
        let not = arb_operand(tier).prop_map(|a| C20Case { a, b: Rhs::N(Nat::new(NatTy::U8, 0)), op: AnyOp::Not });
        prop_oneof![6 => bin, 2 => sh, 1 => not].boxed()
    }
    fn exhaustive_subspaces(&self, tier: Tier) -> Vec<String> {
        vec![
            format!("all values of both operands for n,m<={} x 20x20 pairings x 8 binary operators x all 6 forms", tier.pick(3, 5)),
            format!("all values n<={} x amounts 0..=n+1 x 6 amount types x 6 shift forms x 20 types; ! both forms", tier.pick(4, 6)),
        ]
    }
    fn enumerate(&self, tier: Tier, sh: &mut Shard, f: &mut dyn FnMut(C20Case) -> bool) {
        let k = tier.pick(3, 5);
        for lt in ROUTINE_TIDS {
            for rt in ROUTINE_TIDS {
                if !sh.mine() {
                    continue;
                }
                for n in 0..=k {
                    for m in 0..=k {
                        for a in all_values(n) {
                            for b in all_values(m) {
                                for op in BIN_OPS {
                                    for pa in scope_provs(lt) {
                                        for pb in scope_provs(rt) {
                                            let c = C20Case { a: Operand::fitted(lt, a.clone(), pa.clone()), b: Rhs::V(Operand::fitted(rt, b.clone(), pb)), op: AnyOp::Bin(op) };
                                            if !f(c) {
                                                return;
                                            }
                                        }
                                    }
                                }
                            }
                        }
                    }
                }
            }
        }
        // long vectors: all forms of shifts by >= 1024 and of the binary operators
        for t in [TID_D, TID_A, 18u8] {
            if !sh.mine() {
                continue;
            }
            let c = fixed_cap(t).unwrap_or(usize::MAX);
            for n in [1100usize, 2048, 2049, 4097] {
                let n = n.min(c);
                for a in [Bits::ones(n), dense_value(n)] {
                    for k in [64usize, 1000, 1024, 1030, 1088, n - 64, n - 1] {
                        for op in [AnyOp::Shl, AnyOp::Shr] {
                            if !f(C20Case { a: Operand::canon(t, a.clone()), b: Rhs::N(Nat::new(NatTy::U32, k as u128)), op }) {
                                return;
                            }
                        }
                    }
                    for op in BIN_OPS {
                        for (rt, m) in [(TID_D, n), (TID_A, n / 2 + 3), (11u8, 192)] {
                            if !f(C20Case { a: Operand::canon(t, a.clone()), b: Rhs::V(Operand::canon(rt, dense_value(m))), op: AnyOp::Bin(op) }) {
                                return;
                            }
                        }
                        if !f(C20Case { a: Operand::canon(t, a.clone()), b: Rhs::N(Nat::new(NatTy::U128, 0xFFFF_FFFF_FFFF_FFFF_0000_0001)), op: AnyOp::Bin(op) }) {
                            return;
                        }
                    }
                }
            }
        }
        // the 70 400-bit fixed type and a geometric ladder of lengths up to megabits (Bvd, Bv):
        // every form of shifts around word, 4096-bit and 2^16 boundaries and of the binary
        // operators (division only where it is affordable)
        let mut long: Vec<(Tid, usize)> = HUGE_TYPE_LENS.iter().map(|&n| (TID_HUGE, n)).collect();
        // (every case applies six forms, each followed by a battery: the ladder stops at 2^19 bits
        // in the quick tier and uses fewer operators above 2^17)
        let top = (1usize << tier.pick(19, 21)) + (1 << 18);
        long.extend(ladder_lengths(tier).into_iter().filter(|&(_, n)| n <= top));
        for (t, n) in long {
            if !sh.mine() {
                continue;
            }
            let a = dense_value(n);
            for (j, k) in [1usize, 64, 65, 4099, 65_541, n / 2 + 3, n - 1].into_iter().enumerate() {
                if n > (1 << 17) + 5000 && j % 2 == 1 {
                    continue;
                }
                if k >= n {
                    continue;
                }
                let op = if (j + n) % 2 == 0 { AnyOp::Shl } else { AnyOp::Shr };
                if !f(C20Case { a: Operand::canon(t, a.clone()), b: Rhs::N(Nat::new(NAT_TYS[2 + j % 4], k as u128)), op }) {
                    return;
                }
            }
            if !f(C20Case { a: Operand::canon(t, a.clone()), b: Rhs::N(Nat::new(NatTy::U8, 0)), op: AnyOp::Not }) {
                return;
            }
            let other = if t == TID_D { TID_A } else { TID_D };
            for op in BIN_OPS {
                let div = matches!(op, BinOp::Div | BinOp::Rem);
                if (div && n > HUGE_DIV_MAX) || (n > (1 << 17) + 5000 && !matches!(op, BinOp::Add | BinOp::Or | BinOp::Sub)) {
                    continue;
                }
                if !f(C20Case { a: Operand::canon(t, a.clone()), b: Rhs::V(Operand::canon(other, dense_value(n / 2 + 3))), op: AnyOp::Bin(op) }) {
                    return;
                }
            }
        }
        let ks = tier.pick(4, 6);
        for t in ROUTINE_TIDS {
            if !sh.mine() {
                continue;
            }
            for n in 0..=ks {
                for a in all_values(n) {
                    if !f(C20Case { a: Operand::canon(t, a.clone()), b: Rhs::N(Nat::new(NatTy::U8, 0)), op: AnyOp::Not }) {
                        return;
                    }
                    for amt in 0..=(n + 1) {
                        for nty in NAT_TYS {
                            for op in [AnyOp::Shl, AnyOp::Shr] {
                                if !f(C20Case { a: Operand::canon(t, a.clone()), b: Rhs::N(Nat::new(nty, amt as u128)), op }) {
                                    return;
                                }
                            }
                        }
                    }
                    // amounts at and beyond the platform word, all forms side by side
                    if n >= 1 && (n == 1 || n == ks) {
                        for (nty, x) in [(NatTy::U128, 1u128 << 64), (NatTy::U128, (1u128 << 64) + 1), (NatTy::U128, (1u128 << 64) + n as u128 - 1), (NatTy::U128, u128::MAX), (NatTy::U64, 1u128 << 32), (NatTy::U64, u64::MAX as u128), (NatTy::Usize, usize::MAX as u128), (NatTy::U32, u32::MAX as u128)] {
                            for op in [AnyOp::Shl, AnyOp::Shr] {
                                if !f(C20Case { a: Operand::canon(t, a.clone()), b: Rhs::N(Nat::new(nty, x)), op }) {
                                    return;
                                }
                            }
                        }
                    }
                    for nty in NAT_TYS {
                        for x in [1u128, 2, 3, 5] {
                            for op in BIN_OPS {
                                if !f(C20Case { a: Operand::canon(t, a.clone()), b: Rhs::N(Nat::new(nty, x)), op: AnyOp::Bin(op) }) {
                                    return;
                                }
                            }
                        }
                    }
                }
            }
        }
    }

    fn check(&self, case: &C20Case, st: &mut Stats) -> CheckResult {
        let C20Case { a, b, op } = case;
        let za = build_checked(a, "left")?;
        let snap_a = snapshot(&za);
        let n = a.len();
        let expected: Option<Bits>;
        let what: String;
        match op {
            AnyOp::Bin(bop) => {
                what = format!("forms:{}:{}:{}x{}", op_name(*bop), shape_class(a, b), kind_of(a.ty), rhs_kind(b));
                let rb = build_rhs_checked(b)?;
                let snap_b = if let BuiltRhs::V(zb) = &rb { Some(snapshot(zb)) } else { None };
                let bbits = b.bits();
                expected = model_bin(&a.bits, &bbits, *bop);
                let mut variants: Vec<(String, BuiltRhs)> = vec![("direct".into(), rb)];
                if let Rhs::N(x) = b {
                    // the same native value as a vector of each implementation
                    variants.push(("as Bvd".into(), BuiltRhs::V(Bvd::from_nat(*x, false).unwrap().wrap())));
                    variants.push(("as Bv".into(), BuiltRhs::V(Bv::from_nat(*x, true).unwrap().wrap())));
                    variants.push(("as Bvf<u64,3>".into(), BuiltRhs::V(F64x3::from_nat(*x, false).expect("every native integer fits 192 bits").wrap())));
                }
                for (vname, rbv) in &variants {
                    for form in FORMS {
                        let out = apply_bin(&za, rbv.as_ref(), *bop, form);
                        match (&expected, out) {
                            (None, Ok(_)) => fail!(format!("{}/zero-divisor-returned", what), "{} {} {} [{} {:?}]: zero divisor but the call returned", a.describe(), bop.sym(), b.describe(), vname, form),
                            (None, Err(_)) => {}
                            (Some(_), Err(p)) => fail!(format!("{}/panic", what), "{} {} {} [{} {:?}] panicked: {}", a.describe(), bop.sym(), b.describe(), vname, form, p),
                            (Some(e), Ok(r)) => {
                                ensure!(r.tid() == a.ty, format!("{}/type", what), "result type differs from LHS type");
                                battery_z(&r, e, Strength::Light, &what).map_err(|mut v| {
                                    v.msg = format!("{} {} {} [{} {:?}]: this form disagrees with the model (the other forms are checked against the same model): {}", a.describe(), bop.sym(), b.describe(), vname, form, v.msg);
                                    v
                                })?;
                            }
                        }
                        st.class(&format!("form:{:?}", form));
                    }
                }
                if let (Some(s), BuiltRhs::V(zb)) = (&snap_b, &variants[0].1) {
                    ensure!(&snapshot(zb) == s, format!("{}/operand-modified", what), "{} {} {}: right operand changed (bits/bytes/capacity {:?} -> {:?})", a.describe(), bop.sym(), b.describe(), s, snapshot(zb));
                }
                check_aliased(&za, a, b, *bop, &what, st)?;
                st.class(shape_class(a, b));
                st.class(&format!("op:{}", op_name(*bop)));
            }
            AnyOp::Shl | AnyOp::Shr => {
                let left = *op == AnyOp::Shl;
                let amt = match b {
                    Rhs::N(x) => *x,
                    Rhs::V(_) => fail!("bad-case", "shift case needs a native amount"),
                };
                what = format!("forms:{}:{}:{}", if left { "shl" } else { "shr" }, kind_of(a.ty), amt.ty.name());
                let e = model_shift(&a.bits, left, amt.v);
                // the same amount in every native type that can hold it
                let mut amts = vec![amt];
                for nty in NAT_TYS {
                    if nty != amt.ty && amt.v <= nty.maxv() {
                        amts.push(Nat::new(nty, amt.v));
                    }
                }
                for am in amts {
                    for form in SH_FORMS {
                        let r = match catch(|| z_match!(&za, v => v.shift_x(left, am, form).wrap())) {
                            Ok(r) => r,
                            Err(p) => fail!(format!("{}/panic", what), "{} {} {}{} ({:?}) panicked: {}", a.describe(), if left { "<<" } else { ">>" }, am.v, am.ty.name(), form, p),
                        };
                        battery_z(&r, &e, Strength::Light, &what).map_err(|mut v| {
                            v.msg = format!("{} {} {}{} ({:?}): {}", a.describe(), if left { "<<" } else { ">>" }, am.v, am.ty.name(), form, v.msg);
                            v
                        })?;
                        st.class(&format!("shform:{:?}", form));
                    }
                }
                st.class_if(amt.v >= n as u128, "shift amount >= len");
                expected = Some(e);
            }
            AnyOp::Not => {
                what = format!("forms:not:{}", kind_of(a.ty));
                let e = Bits(a.bits.0.iter().map(|&x| !x).collect());
                for owned in [false, true] {
                    let r = match catch(|| z_match!(&za, v => v.not_x(owned).wrap())) {
                        Ok(r) => r,
                        Err(p) => fail!(format!("{}/panic", what), "!{} (owned={}) panicked: {}", a.describe(), owned, p),
                    };
                    battery_z(&r, &e, Strength::Light, &what).map_err(|mut v| {
                        v.msg = format!("!{} (owned={}): {}", a.describe(), owned, v.msg);
                        v
                    })?;
                }
                expected = Some(e);
            }
        }
        let after = snapshot(&za);
        ensure!(after == snap_a, format!("{}/operand-modified", what), "{}: left operand changed by by-reference use or by an in-place operation on a clone (bits/bytes/capacity {:?} -> {:?})", a.describe(), snap_a, after);
        st.class(a.prov.class());
        st.note(case, n > 0 && expected.as_ref().map_or(false, |e| e != &a.bits));
        Ok(())
    }
    fn assumptions(&self) -> Vec<String> {
        vec!["every form is compared with the same model result, so agreement between forms is implied and 'consistently wrong' cannot pass".into()]
    }
}
