pub mod c01;
pub mod giant;
pub mod c02;
pub mod c04;
pub mod c05;
pub mod c06;
pub mod c08;
pub mod c09;
pub mod c10;
pub mod c11;
pub mod c12;
pub mod c13;
pub mod c14;
pub mod c15;
pub mod c16;
pub mod c17;
pub mod c19;
pub mod c20;
pub mod common;
pub mod hist;
pub mod prim;
pub mod wide;

/// `with_property!(id, p => expr)`: bind `p` to the property object for `id`.
#[macro_export]
macro_rules! with_property {
    ($id:expr, $p:ident => $body:expr) => {
        match $id {
            "C01" => { let $p = $crate::props::c01::C01; Some($body) }
            "C02" => { let $p = $crate::props::c02::C02; Some($body) }
            "C04" => { let $p = $crate::props::c04::C04; Some($body) }
            "C05" => { let $p = $crate::props::c05::C05; Some($body) }
            "C06" => { let $p = $crate::props::c06::C06; Some($body) }
            "C08" => { let $p = $crate::props::c08::C08; Some($body) }
            "C09" => { let $p = $crate::props::c09::C09; Some($body) }
            "C10" => { let $p = $crate::props::c10::C10; Some($body) }
            "C11" => { let $p = $crate::props::c11::C11; Some($body) }
            "C12" => { let $p = $crate::props::c12::C12; Some($body) }
            "C13" => { let $p = $crate::props::c13::C13; Some($body) }
            "C14" => { let $p = $crate::props::c14::C14; Some($body) }
            "C15" => { let $p = $crate::props::c15::C15; Some($body) }
            "C16" => { let $p = $crate::props::c16::C16; Some($body) }
            "C17" => { let $p = $crate::props::c17::C17; Some($body) }
            "C19" => { let $p = $crate::props::c19::C19; Some($body) }
            "C20" => { let $p = $crate::props::c20::C20; Some($body) }
            "C03" => { let $p = $crate::props::hist::C03; Some($body) }
            "C07" => { let $p = $crate::props::hist::C07; Some($body) }
            "C18" => { let $p = $crate::props::hist::C18; Some($body) }
            _ => None,
        }
    };
}

pub const ALL_IDS: &[&str] = &["C03", "C07", "C18", "C01", "C02", "C04", "C05", "C06", "C08", "C09", "C10", "C11", "C12", "C13", "C14", "C15", "C16", "C17", "C19", "C20"];
