pub mod c04;
pub mod common;

/// `with_property!(id, p => expr)`: bind `p` to the property object for `id`.
#[macro_export]
macro_rules! with_property {
    ($id:expr, $p:ident => $body:expr) => {
        match $id {
            "C04" => { let $p = $crate::props::c04::C04; Some($body) }
            _ => None,
        }
    };
}

pub const ALL_IDS: &[&str] = &["C04"];
