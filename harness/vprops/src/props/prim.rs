//! Direct enumeration of the per-word-type primitives behind C01 (carry add, borrow sub, widening
//! multiply, mask) and of the word re-chunking used by every mixed-width operation, through the
//! `verif-hooks` re-export of the crate-private helper traits.

use crate::engine::{catch, CheckResult};
use crate::{ensure, fail};
use bva::verif_hooks::{IArray, IArrayMut, Integer, StaticCast};
use num_bigint::BigUint;
use serde::{Deserialize, Serialize};
use vcore::*;

#[derive(Clone, Copy, Debug, Hash, PartialEq, Eq, Serialize, Deserialize)]
pub enum PrimKind {
    Cadd,
    Csub,
    Wmul,
    Mask,
}

#[derive(Clone, Debug, Hash, Serialize, Deserialize)]
pub enum PrimCase {
    /// `a.cadd(b, c)`, `a.csub(b, c)`, `a.wmul(b)`, `mask(a as length)` on word type `ty`
    Word { ty: NatTy, kind: PrimKind, a: Nat, b: Nat, c: Nat },
    /// `[src].get_int::<dst>(idx)` then `set_int::<dst>(idx, val)` on an array of `src` words
    Chunk { src: NatTy, dst: NatTy, words: Vec<Nat>, idx: usize, val: Nat },
}

fn word<I: Integer>(kind: PrimKind, a: u128, b: u128, c: u128) -> (u128, u128) {
    let mut x: I = StaticCast::<u128>::cast_from(a);
    let y: I = StaticCast::<u128>::cast_from(b);
    let z: I = StaticCast::<u128>::cast_from(c);
    match kind {
        PrimKind::Cadd => {
            let r = x.cadd(y, z);
            (StaticCast::<u128>::cast_to(x), StaticCast::<u128>::cast_to(r))
        }
        PrimKind::Csub => {
            let r = x.csub(y, z);
            (StaticCast::<u128>::cast_to(x), StaticCast::<u128>::cast_to(r))
        }
        PrimKind::Wmul => {
            let (lo, hi) = x.wmul(y);
            (StaticCast::<u128>::cast_to(lo), StaticCast::<u128>::cast_to(hi))
        }
        PrimKind::Mask => (StaticCast::<u128>::cast_to(I::mask(a as usize)), 0),
    }
}

fn chunk<I: Integer + StaticCast<J>, J: Integer>(words: &[u128], idx: usize, val: u128) -> (usize, Option<u128>, Option<u128>, Vec<u128>) {
    let mut arr: Vec<I> = words.iter().map(|&w| StaticCast::<u128>::cast_from(w)).collect();
    let il = IArray::int_len::<J>(arr.as_slice());
    let g: Option<J> = IArray::get_int::<J>(arr.as_slice(), idx);
    let v: J = StaticCast::<u128>::cast_from(val);
    let old: Option<J> = IArrayMut::set_int::<J>(arr.as_mut_slice(), idx, v);
    (il, g.map(|x| StaticCast::<u128>::cast_to(x)), old.map(|x| StaticCast::<u128>::cast_to(x)), arr.iter().map(|&x| StaticCast::<u128>::cast_to(x)).collect())
}

pub fn check_prim(case: &PrimCase) -> CheckResult {
    match case {
        PrimCase::Word { ty, kind, a, b, c } => {
            let w = ty.bits();
            let m = ty.maxv();
            let (a, b, c) = (a.v & m, b.v & m, c.v & m);
            let what = format!("primitive:{:?}:{}", kind, ty.name());
            let got = match catch(|| natty_match!(*ty, I => word::<I>(*kind, a, b, c))) {
                Ok(g) => g,
                Err(p) => fail!(format!("{}/panic", what), "{}::{:?}({}, {}, {}) panicked: {}", ty.name(), kind, a, b, c, p),
            };
            let modulus = BigUint::from(1u8) << w;
            let big = |x: u128| BigUint::from(x);
            let low = |x: &BigUint| -> u128 { (x % &modulus).iter_u64_digits().enumerate().fold(0u128, |acc, (i, d)| acc | ((d as u128) << (64 * i))) };
            let exp: (u128, u128) = match kind {
                PrimKind::Cadd => {
                    let t = big(a) + big(b) + big(c);
                    (low(&t), low(&(&t >> w)))
                }
                PrimKind::Csub => {
                    // d = a - b - c; borrows = how many times 2^w must be added to make it non-negative
                    let t = big(a) + &modulus * 2u8 - big(b) - big(c);
                    let borrows = 2 - low(&(&t >> w));
                    (low(&t), borrows)
                }
                PrimKind::Wmul => {
                    let t = big(a) * big(b);
                    (low(&t), low(&(&t >> w)))
                }
                PrimKind::Mask => {
                    let l = a as usize;
                    (if l >= w { m } else { (1u128 << l) - 1 }, 0)
                }
            };
            ensure!(got == exp, format!("{}/wrong", what), "{}::{:?}({:#x}, {:#x}, {:#x}) = {:#x?}, expected {:#x?}", ty.name(), kind, a, b, c, got, exp);
            Ok(())
        }
        PrimCase::Chunk { src, dst, words, idx, val } => {
            let idx = *idx;
            let what = format!("rechunk:{}->{}", src.name(), dst.name());
            let ws: Vec<u128> = words.iter().map(|x| x.v & src.maxv()).collect();
            let val = val.v & dst.maxv();
            let got = match catch(|| natty_match!(*src, I => natty_match!(*dst, J => chunk::<I, J>(&ws, idx, val)))) {
                Ok(g) => g,
                Err(p) => fail!(format!("{}/panic", what), "[{}; {}] get_int/set_int::<{}>({}) panicked: {}", src.name(), ws.len(), dst.name(), idx, p),
            };
            // model: the array as one little-endian bit string
            let sw = src.bits();
            let dw = dst.bits();
            let total = ws.len() * sw;
            let mut bits: Vec<bool> = Vec::with_capacity(total);
            for w in &ws {
                bits.extend(Bits::from_u128(*w, sw).0);
            }
            let il = (total / 8 + dw / 8 - 1) / (dw / 8);
            let read = |bits: &Vec<bool>| -> u128 {
                let mut r = 0u128;
                for j in 0..dw {
                    if *bits.get(idx * dw + j).unwrap_or(&false) {
                        r |= 1u128 << j;
                    }
                }
                r
            };
            let (eget, eold, eafter) = if idx < il {
                let g = read(&bits);
                let mut nb = bits.clone();
                for j in 0..dw {
                    if idx * dw + j < total {
                        nb[idx * dw + j] = (val >> j) & 1 == 1;
                    }
                }
                let after: Vec<u128> = nb.chunks(sw).map(|c| Bits(c.to_vec()).low_u128()).collect();
                (Some(g), Some(g), after)
            } else {
                (None, None, ws.clone())
            };
            let exp = (il, eget, eold, eafter);
            ensure!(got == exp, format!("{}/wrong", what), "[{}; {}]={:#x?}: int_len/get_int/set_int::<{}>(idx {}, val {:#x}) = {:#x?}, expected {:#x?}", src.name(), ws.len(), ws, dst.name(), idx, val, got, exp);
            Ok(())
        }
    }
}
