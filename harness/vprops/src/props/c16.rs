//! C16 - bit-count queries report exact run lengths for every vector.

use super::common::*;
use crate::engine::*;
use crate::gen::*;
use crate::spec::*;
use crate::stats::Stats;
use crate::ensure;
use proptest::prelude::*;
use serde::{Deserialize, Serialize};
use vcore::*;

#[derive(Clone, Debug, Hash, Serialize, Deserialize)]
pub struct C16Case {
    pub a: Operand,
    /// when present the subject is this giant vector (> 2^31 bits) and `a` is ignored (empty)
    #[serde(default)]
    pub giant: Option<super::giant::GiantSpec>,
}

pub struct C16;

fn model_runs(b: &Bits) -> (usize, usize, usize, usize) {
    let lz = b.0.iter().rev().take_while(|&&x| !x).count();
    let lo = b.0.iter().rev().take_while(|&&x| x).count();
    let tz = b.0.iter().take_while(|&&x| !x).count();
    let to = b.0.iter().take_while(|&&x| x).count();
    (lz, lo, tz, to)
}

impl Property for C16 {
    type Case = C16Case;
    fn id(&self) -> &'static str {
        "C16"
    }
    fn rule(&self) -> String {
        "Cases: one operand of any zoo type/length/provenance (spare capacity, heap-mode Bv, produced-by-operation included); values biased to run-length patterns. Enumerated: all values n<=12 (quick)/18 (thorough) on all 20 types; for every n<=min(C,260) and every run length r<=n at either end, both polarities, with an interrupting opposite bit at {none, r, r+1, next word boundary, n-1}; long vectors: every length 321..2600 (thorough 8300), 1024..8193 bits with a bit in every word, the 70 400-bit fixed type at 7 lengths and a geometric ladder of lengths around every power of two from 2^14 to 2^21 (thorough 2^24) bits with runs ending around word, 4096-bit and 2^16 boundaries. Giant vectors (2^31+69 and 2^32+77 bits, Bvd and heap Bv, four bit lists: top bit set / clear with decoys at the index reduced modulo 2^31 and 2^32, a small value, zero). Oracle: counting on the bit list for leading_zeros/leading_ones/trailing_zeros/trailing_ones/significant_bits/is_zero, plus the stated identities (lz+significant_bits=len, is_zero iff significant_bits=0, counts<=len, uniform => len, empty => 0). Non-trivial: some run r with 0<r<n whose boundary is within 1 of a storage-word boundary or which spans >= 2 words. Distinct by hash of the case.".into()
    }
    fn random_cases(&self, tier: Tier) -> u64 {
        tier.pick(300000, 9600000)
    }
    fn strategy(&self, tier: Tier) -> BoxedStrategy<C16Case> {
        arb_operand(tier).prop_map(|a| C16Case { a, giant: None }).boxed()
    }
    fn exhaustive_subspaces(&self, tier: Tier) -> Vec<String> {
        vec![
            format!("all values for n<={} (clipped to capacity) x 20 types", tier.pick(12, 18)),
            "every (n<=min(capacity,260), run length r<=n, end in {top,bottom}, polarity, interrupting bit position in {none,r,r+1,next word boundary,n-1}) x 20 types".into(),
        ]
    }
    fn enumerate(&self, tier: Tier, sh: &mut Shard, f: &mut dyn FnMut(C16Case) -> bool) {
        let k = tier.pick(12, 18);
        for t in ROUTINE_TIDS {
            let c = fixed_cap(t).unwrap_or(usize::MAX);
            for n in 0..=k.min(c) {
                let mut mine = false;
                for (idx, a) in all_values(n).enumerate() {
                    // shard in blocks of 256 values
                    if idx % 256 == 0 {
                        mine = sh.mine();
                    }
                    if !mine {
                        continue;
                    }
                    if !f(C16Case { a: Operand::canon(t, a), giant: None }) {
                        return;
                    }
                }
            }
        }
        for (t, n) in dense_lengths(tier) {
            if !sh.mine() {
                continue;
            }
            let mut hot = Bits::zeros(n);
            hot.0[n / 2] = true;
            for a in [Bits::ones(n), hot, dense_value(n), Bits::zeros(n)] {
                if !f(C16Case { a: Operand::canon(t, a), giant: None }) {
                    return;
                }
            }
        }
        for t in [TID_D, TID_A, 18u8] {
            let c = fixed_cap(t).unwrap_or(usize::MAX);
            for n in LONG_LENS {
                if !sh.mine() {
                    continue;
                }
                let n = n.min(c);
                let mut vals = long_values(n);
                vals.push(Bits::zeros(n));
                for j in 0..(n + 63) / 64 {
                    let i = (j * 64 + 5).min(n - 1);
                    let mut b = Bits::zeros(n);
                    b.0[i] = true;
                    vals.push(b.clone());
                    // the same with everything above set / everything below set
                    vals.push(Bits((0..n).map(|x| x <= i).collect()));
                    vals.push(Bits((0..n).map(|x| x >= i).collect()));
                }
                for r in [1usize, 63, 64, 65, 511, 512, 513, 1023, 1024] {
                    // runs of ones / zeros of length r at either end
                    vals.push(Bits((0..n).map(|i| i < r).collect()));
                    vals.push(Bits((0..n).map(|i| i >= n - r).collect()));
                    vals.push(Bits((0..n).map(|i| i >= r).collect()));
                    vals.push(Bits((0..n).map(|i| i < n - r).collect()));
                }
                for a in vals {
                    for prov in [Prov::Canon, Prov::Spare(4200)] {
                        if !f(C16Case { a: Operand { ty: t, bits: a.clone(), prov }, giant: None }) {
                            return;
                        }
                    }
                }
            }
        }
        // the 70 400-bit fixed type and a geometric ladder of lengths up to megabits (Bvd, Bv):
        // runs that end around word, 4096-bit and 2^16 boundaries, a single bit, dense, zero
        let mut long: Vec<(Tid, usize)> = HUGE_TYPE_LENS.iter().map(|&n| (TID_HUGE, n)).collect();
        long.extend(ladder_lengths(tier));
        for (t, n) in long {
            if !sh.mine() {
                continue;
            }
            // (values are produced one at a time: at megabit lengths a list of them is large)
            let mut j = 0usize;
            let mut emit = |a: Bits, f: &mut dyn FnMut(C16Case) -> bool| -> bool {
                j += 1;
                let prov = if j % 4 == 3 && t != TID_HUGE { Prov::Spare(4200) } else { Prov::Canon };
                f(C16Case { a: Operand { ty: t, bits: a, prov }, giant: None })
            };
            for a in [Bits::ones(n), Bits::zeros(n), dense_value(n)] {
                if !emit(a, f) {
                    return;
                }
            }
            for r in [1usize, 64, 65, 4097, 65535, 65536, 65537, n / 2 + 3, n - 1] {
                if r >= n {
                    continue;
                }
                for k in 0..5 {
                    let a = match k {
                        0 => Bits((0..n).map(|i| i < r).collect()),
                        1 => Bits((0..n).map(|i| i >= n - r).collect()),
                        2 => Bits((0..n).map(|i| i >= r).collect()),
                        3 => Bits((0..n).map(|i| i < n - r).collect()),
                        _ => {
                            let mut b = Bits::zeros(n);
                            b.0[r] = true;
                            b
                        }
                    };
                    if !emit(a, f) {
                        return;
                    }
                }
            }
        }
        // beyond 2^31 and 2^32 bits: counts that no longer fit 31 / 32 bits
        for len in super::giant::GIANT_LENS {
            for heap_bv in [false, true] {
                if !sh.mine() {
                    continue;
                }
                for ones in super::giant::giant_lists(len) {
                    if !f(C16Case { a: Operand::canon(TID_D, Bits::new()), giant: Some(super::giant::GiantSpec { len, ones, heap_bv }) }) {
                        return;
                    }
                }
            }
        }
        for t in ROUTINE_TIDS {
            let c = fixed_cap(t).unwrap_or(260).min(260);
            let w = WORD_BITS[t as usize];
            for n in 1..=c {
                if !sh.mine() {
                    continue;
                }
                for r in 0..=n {
                    for top in [false, true] {
                        for pol in [false, true] {
                            // run of `pol` of length r at the chosen end, the rest is !pol
                            let base: Vec<bool> = (0..n).map(|i| if top { (i >= n - r) == pol } else { (i < r) == pol }).collect();
                            let mut pos: Vec<Option<usize>> = vec![None, Some(r), Some(r + 1), Some((r / w + 1) * w), Some(n - 1)];
                            pos.dedup();
                            for p in pos {
                                let mut b = base.clone();
                                if let Some(p) = p {
                                    if p >= n {
                                        continue;
                                    }
                                    // interrupt: flip the bit at distance p from the run's end
                                    let i = if top { n - 1 - p } else { p };
                                    b[i] = !b[i];
                                }
                                if !f(C16Case { a: Operand::canon(t, Bits(b)), giant: None }) {
                                    return;
                                }
                            }
                        }
                    }
                }
            }
        }
    }
    fn check(&self, case: &C16Case, st: &mut Stats) -> CheckResult {
        if let Some(g) = &case.giant {
            ensure!(g.valid(), "bad-case", "giant case with a set bit beyond the length");
            if !super::giant::giant_available(g.len) {
                st.class("giant vector skipped: memory not available");
                st.note(case, false);
                return Ok(());
            }
            fn q<T: BitVector>(g: &super::giant::GiantSpec) -> (usize, usize, usize, usize, usize, bool) {
                let v: T = g.build();
                (v.leading_zeros(), v.leading_ones(), v.trailing_zeros(), v.trailing_ones(), v.significant_bits(), v.is_zero())
            }
            let got = match catch(|| if g.heap_bv { q::<Bv>(g) } else { q::<Bvd>(g) }) {
                Ok(x) => x,
                Err(p) => crate::fail!("counts:giant/panic", "bit-count query on a {}-bit vector with ones at {:?} panicked: {}", g.len, g.ones, p),
            };
            let exp = (g.leading_zeros(), g.leading_ones(), g.trailing_zeros(), g.trailing_ones(), g.significant(), g.ones.is_empty());
            for (name, gv, ev) in [("leading_zeros", got.0, exp.0), ("leading_ones", got.1, exp.1), ("trailing_zeros", got.2, exp.2), ("trailing_ones", got.3, exp.3), ("significant_bits", got.4, exp.4)] {
                ensure!(gv == ev, format!("counts:giant/{}", name), "{}() of a {}-bit vector with ones at {:?} = {}, expected {}", name, g.len, g.ones, gv, ev);
            }
            ensure!(got.5 == exp.5, "counts:giant/is_zero", "is_zero() of a {}-bit vector with ones at {:?} = {}", g.len, g.ones, got.5);
            st.class("giant vector (> 2^31 bits)");
            st.note(case, true);
            return Ok(());
        }
        let a = &case.a;
        let n = a.len();
        let what = format!("counts:{}", kind_of(a.ty));
        let za = build_checked(a, "subject")?;
        let (lz, lo, tz, to) = model_runs(&a.bits);
        let got = match catch(|| z_match!(&za, v => (v.leading_zeros(), v.leading_ones(), v.trailing_zeros(), v.trailing_ones(), v.significant_bits(), v.is_zero()))) {
            Ok(g) => g,
            Err(p) => crate::fail!(format!("{}/panic", what), "bit-count query on {} panicked: {}", a.describe(), p),
        };
        let raw = za.raw();
        ensure!(got.0 == lz, format!("{}/leading_zeros", what), "{}.leading_zeros() = {}, model {} (raw {})", a.describe(), got.0, lz, raw);
        ensure!(got.1 == lo, format!("{}/leading_ones", what), "{}.leading_ones() = {}, model {} (raw {})", a.describe(), got.1, lo, raw);
        ensure!(got.2 == tz, format!("{}/trailing_zeros", what), "{}.trailing_zeros() = {}, model {} (raw {})", a.describe(), got.2, tz, raw);
        ensure!(got.3 == to, format!("{}/trailing_ones", what), "{}.trailing_ones() = {}, model {} (raw {})", a.describe(), got.3, to, raw);
        ensure!(got.4 == a.bits.significant(), format!("{}/significant_bits", what), "{}.significant_bits() = {}, model {} (raw {})", a.describe(), got.4, a.bits.significant(), raw);
        ensure!(got.5 == a.bits.is_zero(), format!("{}/is_zero", what), "{}.is_zero() = {}, model {} (raw {})", a.describe(), got.5, a.bits.is_zero(), raw);
        // the stated identities, on the returned values themselves
        ensure!(got.0 + got.4 == n, format!("{}/identity", what), "leading_zeros + significant_bits != len for {}", a.describe());
        ensure!(got.5 == (got.4 == 0), format!("{}/identity", what), "is_zero disagrees with significant_bits == 0 for {}", a.describe());
        ensure!(got.0 <= n && got.1 <= n && got.2 <= n && got.3 <= n, format!("{}/identity", what), "a count exceeds len for {}", a.describe());
        let w = WORD_BITS[a.ty as usize];
        let near = |r: usize| r > 0 && r < n && ((r % w) <= 1 || (r % w) == w - 1 || r >= 2 * w);
        st.class(a.prov.class());
        st.class_if(n == 0, "empty");
        st.class_if(n > 0 && n % w == 0, "len is a word multiple");
        st.class_if(lz == n || lo == n, "uniform");
        st.note(case, near(lz) || near(lo) || near(tz) || near(to));
        Ok(())
    }
}
