//! C14 - text formatting matches Rust's formatting of the same unsigned integer.

use super::common::*;
use crate::engine::*;
use crate::gen::*;
use crate::spec::*;
use crate::stats::Stats;
use crate::{ensure, fail};
use num_bigint::BigUint;
use proptest::prelude::*;
use serde::{Deserialize, Serialize};
use std::fmt::{Binary, Display, LowerHex, Octal, UpperHex};
use vcore::*;

#[derive(Clone, Debug, Hash, Serialize, Deserialize)]
pub struct C14Case {
    pub a: Operand,
    pub width: usize,
}

pub struct C14;

/// One literal format specification applied to `v`. The matrix below instantiates it for every
/// combination of fill/alignment x sign x '#' x '0' x (no width | runtime width) x radix.
macro_rules! one {
    ($out:ident, $v:ident, $w:ident, $dec_all:ident, $al:literal, $sg:literal, $alt:literal, $z:literal) => {
        // without width
        $out.push((concat!("{:", $al, $sg, $alt, $z, "b}"), format!(concat!("{:", $al, $sg, $alt, $z, "b}"), $v)));
        $out.push((concat!("{:", $al, $sg, $alt, $z, "o}"), format!(concat!("{:", $al, $sg, $alt, $z, "o}"), $v)));
        $out.push((concat!("{:", $al, $sg, $alt, $z, "x}"), format!(concat!("{:", $al, $sg, $alt, $z, "x}"), $v)));
        $out.push((concat!("{:", $al, $sg, $alt, $z, "X}"), format!(concat!("{:", $al, $sg, $alt, $z, "X}"), $v)));
        // with a runtime width
        $out.push((concat!("{:", $al, $sg, $alt, $z, "w$b}"), format!(concat!("{:", $al, $sg, $alt, $z, "w$b}"), $v, w = $w)));
        $out.push((concat!("{:", $al, $sg, $alt, $z, "w$o}"), format!(concat!("{:", $al, $sg, $alt, $z, "w$o}"), $v, w = $w)));
        $out.push((concat!("{:", $al, $sg, $alt, $z, "w$x}"), format!(concat!("{:", $al, $sg, $alt, $z, "w$x}"), $v, w = $w)));
        $out.push((concat!("{:", $al, $sg, $alt, $z, "w$X}"), format!(concat!("{:", $al, $sg, $alt, $z, "w$X}"), $v, w = $w)));
        if $dec_all {
            $out.push((concat!("{:", $al, $sg, $alt, $z, "}"), format!(concat!("{:", $al, $sg, $alt, $z, "}"), $v)));
            $out.push((concat!("{:", $al, $sg, $alt, $z, "w$}"), format!(concat!("{:", $al, $sg, $alt, $z, "w$}"), $v, w = $w)));
        }
    };
}

macro_rules! flags {
    ($out:ident, $v:ident, $w:ident, $dec_all:ident, $al:literal) => {
        one!($out, $v, $w, $dec_all, $al, "", "", "");
        one!($out, $v, $w, $dec_all, $al, "+", "", "");
        one!($out, $v, $w, $dec_all, $al, "", "#", "");
        one!($out, $v, $w, $dec_all, $al, "", "", "0");
        one!($out, $v, $w, $dec_all, $al, "+", "#", "");
        one!($out, $v, $w, $dec_all, $al, "", "#", "0");
        one!($out, $v, $w, $dec_all, $al, "+", "", "0");
        one!($out, $v, $w, $dec_all, $al, "+", "#", "0");
    };
}

/// The fixed matrix: 7 fill/alignment settings x 8 flag sets x (4 radices x 2 + decimal x 2) = 560
/// specifications (decimal only in 4 of them when `dec_all` is false, because bva's decimal
/// formatting is a repeated long division).
pub fn matrix<T: Display + Binary + Octal + LowerHex + UpperHex>(v: &T, w: usize, dec_all: bool) -> Vec<(&'static str, String)> {
    let mut out: Vec<(&'static str, String)> = Vec::with_capacity(570);
    if w == usize::MAX - 2 {
        // padded set for very long vectors: flags and padding with a width beyond the digit
        // count (linear cost; the width is derived from the binary digit count)
        let bd = format!("{:b}", v).len();
        // (std limits a width argument to u16::MAX)
        for wd in [(bd + 9).min(65535), (bd / 4 + 3).min(65535)] {
            out.push(("{:#0w$b}", format!("{:#0w$b}", v, w = wd)));
            out.push(("{:+0w$b}", format!("{:+0w$b}", v, w = wd)));
            out.push(("{:<#w$b}", format!("{:<#w$b}", v, w = wd)));
            out.push(("{:0w$o}", format!("{:0w$o}", v, w = wd)));
            out.push(("{:+#0w$o}", format!("{:+#0w$o}", v, w = wd)));
            out.push(("{:#0w$x}", format!("{:#0w$x}", v, w = wd)));
            out.push(("{:>+w$x}", format!("{:>+w$x}", v, w = wd)));
            out.push(("{:*^#w$X}", format!("{:*^#w$X}", v, w = wd)));
            out.push(("{:+0w$X}", format!("{:+0w$X}", v, w = wd)));
        }
        return out;
    }
    if w >= usize::MAX - 1 {
        // minimal set for very long vectors (decimal is a repeated long division in bva, so it
        // can be left out: w == usize::MAX - 1)
        if w == usize::MAX {
            out.push(("{}", format!("{}", v)));
        }
        out.push(("{:b}", format!("{:b}", v)));
        out.push(("{:o}", format!("{:o}", v)));
        out.push(("{:x}", format!("{:x}", v)));
        out.push(("{:#X}", format!("{:#X}", v)));
        out.push(("{:.5x}", format!("{:.5x}", v)));
        out.push(("{:.1b}", format!("{:.1b}", v)));
        return out;
    }
    flags!(out, v, w, dec_all, "");
    flags!(out, v, w, dec_all, "<");
    flags!(out, v, w, dec_all, "^");
    flags!(out, v, w, dec_all, ">");
    flags!(out, v, w, dec_all, "*<");
    flags!(out, v, w, dec_all, "_^");
    flags!(out, v, w, dec_all, "0>");
    // a precision is ignored by integer formatting (std's pad_integral), with or without a width
    out.push(("{:.3b}", format!("{:.3b}", v)));
    out.push(("{:.0o}", format!("{:.0o}", v)));
    out.push(("{:.2x}", format!("{:.2x}", v)));
    out.push(("{:#.1X}", format!("{:#.1X}", v)));
    out.push(("{:w$.2x}", format!("{:w$.2x}", v, w = w)));
    out.push(("{:<+w$.4b}", format!("{:<+w$.4b}", v, w = w)));
    if !dec_all {
        out.push(("{}", format!("{}", v)));
        out.push(("{:+w$}", format!("{:+w$}", v, w = w)));
        out.push(("{:#0w$}", format!("{:#0w$}", v, w = w)));
        out.push(("{:*^w$}", format!("{:*^w$}", v, w = w)));
    }
    out
}

/// A `fmt::Write` sink that accepts at most `cap` bytes and then fails.
struct Bounded {
    buf: String,
    cap: usize,
}
impl std::fmt::Write for Bounded {
    fn write_str(&mut self, s: &str) -> std::fmt::Result {
        if self.buf.len() + s.len() > self.cap {
            return Err(std::fmt::Error);
        }
        self.buf.push_str(s);
        Ok(())
    }
}

/// Format into sinks that run out of room, then format normally again (same thread): what the
/// sink received, whether the call failed, and the next ordinary output.
fn failing_sinks<T: Display + Binary + Octal + LowerHex + UpperHex>(v: &T, digits: usize) -> Vec<(bool, String, String)> {
    use std::fmt::Write;
    let mut out = Vec::new();
    for cap in [0usize, 1, digits.saturating_sub(1), digits + 1] {
        let mut s = Bounded { buf: String::new(), cap };
        let r = write!(s, "{:b}", v).is_err();
        out.push((r, s.buf, format!("{:b}", v)));
        let mut s = Bounded { buf: String::new(), cap };
        let r = write!(s, "{:#x}", v).is_err();
        out.push((r, s.buf, format!("{:x}", v)));
        let mut s = Bounded { buf: String::new(), cap };
        let r = write!(s, "{:o}", v).is_err();
        out.push((r, s.buf, format!("{:#o}", v)));
        let mut s = Bounded { buf: String::new(), cap };
        let r = write!(s, "{:+}", v).is_err();
        out.push((r, s.buf, format!("{:X}", v)));
    }
    out
}

fn small<T: Display + Binary + Octal + LowerHex + UpperHex>(v: &T) -> Vec<String> {
    vec![format!("{:b}", v), format!("{:o}", v), format!("{:x}", v), format!("{:X}", v), format!("{:#x}", v), format!("{:#010b}", v)]
}

impl Property for C14 {
    type Case = C14Case;
    fn id(&self) -> &'static str {
        "C14"
    }
    fn rule(&self) -> String {
        "Cases: (vector of any zoo type/length/provenance, width argument). A fixed matrix of 560 literal format specifications ({}, {:b}, {:o}, {:x}, {:X} x flags {none,+,#,0,+#,#0,+0,+#0} x fill/alignment {none,<,^,>,*<,_^,0>} x {no width, runtime width}) is applied to the vector and to the oracle integer and compared string by string (for lengths above 128 bits decimal is limited to 4 specifications because bva formats decimal by repeated long division). Oracle: std u128 formatting up to 128 bits, num-bigint BigUint above; in the same run BigUint is compared with u128 on every <=128-bit case, so the wide oracle's flag handling is itself validated against std. Metamorphic: zero-extending the value and converting it to other implementations leaves every string unchanged. Six more specifications carry a precision (ignored by integer formatting). Widths: 0, digits-1, digits, digits+1, digits+3, 50. Vectors above 400 bits use a minimal set ({:b},{:o},{:x},{:#X}, with or without {}) or a padded set (9 specifications combining #,+,0, fill and alignment with widths beyond the binary and the hex digit count). Enumerated: all values n<=10 (quick)/14 (thorough) on the 1- and 2-word types and Bvd/Bv; 2^k, 2^k-1 and 0 for every k<=min(C,320). Non-trivial: the value has fewer digits than the length suggests (leading zero digit groups), or is zero with n>0, or n=0, or exceeds 2^64. Distinct by hash of the case.".into()
    }
    fn random_cases(&self, tier: Tier) -> u64 {
        tier.pick(40000, 1500000)
    }
    fn strategy(&self, tier: Tier) -> BoxedStrategy<C14Case> {
        (arb_operand(tier), 0usize..6, any::<bool>(), any::<u16>()).prop_map(|(mut a, wsel, shrink_val, f)| {
            // half of the cases: clear a random number of top bits so that leading zero groups occur
            if shrink_val && a.len() > 0 {
                let keep = frac(f, a.len() + 1);
                for i in keep..a.len() {
                    a.bits.0[i] = false;
                }
            }
            // random cases: up to 1300 bits with decimal, beyond that without
            let no_dec = a.len() > 1300;
            // decimal on very long vectors is slow in bva: above 400 bits only the minimal
            // specification set is used (width == usize::MAX selects it)
            let digits = (a.bits.significant().max(1) + 3) / 4;
            let width = if no_dec || (a.ty == TID_HUGE && a.len() > 400) { usize::MAX - 1 - (wsel % 2) } else if a.len() > 400 { usize::MAX } else { [0, digits.saturating_sub(1), digits, digits + 1, digits + 3, 50][wsel] };
            C14Case { a, width }
        }).boxed()
    }
    fn exhaustive_subspaces(&self, tier: Tier) -> Vec<String> {
        vec![
            format!("all values for n<={} on 8 representative types x width 0 and digits+3", tier.pick(10, 14)),
            "values 0, 2^k, 2^k-1 for every k<=min(capacity,320) at full length on all 20 types".into(),
            "every length 0..=capacity of every fixed type with the values 2^len-1 and a dense pattern".into(),
            "decimal/binary/octal/hex of 2^k-1 and 2^(k-1) as k-bit Bvd and Bv for every k in 401..=1300".into(),
            "binary/octal/hex of 2^k-1, 2^(k-1) and a dense value as k-bit Bvd and Bv for k = 1301..8300 step 13, 8300..66000 step 97 and within 4 of 2048, 4096, 4160, 4224, 8192, 12288, 16384, 32768, 49152, 65536".into(),
        ]
    }
    fn enumerate(&self, tier: Tier, sh: &mut Shard, f: &mut dyn FnMut(C14Case) -> bool) {
        let k = tier.pick(10, 14);
        for t in [0u8, 1, 5, 9, 12, 14, TID_D, TID_A] {
            let c = fixed_cap(t).unwrap_or(usize::MAX);
            for n in 0..=k.min(c) {
                let mut mine = false;
                for (idx, a) in all_values(n).enumerate() {
                    if idx % 64 == 0 {
                        mine = sh.mine();
                    }
                    if !mine {
                        continue;
                    }
                    let digits = (a.significant().max(1) + 3) / 4;
                    for width in [0, digits + 3] {
                        if !f(C14Case { a: Operand::canon(t, a.clone()), width }) {
                            return;
                        }
                    }
                }
            }
        }
        // long decimal: 2^k-1 (the largest k-bit value) and 2^(k-1) for every k up to 1300 on the
        // unbounded types, minimal specification set
        for t in [TID_D, TID_A] {
            for kk in 401..=1300usize {
                // quick: every k on Bvd, every 25th on Bv (which delegates to Bvd on the heap)
                if t == TID_A && tier == Tier::Quick && kk % 25 != 0 {
                    continue;
                }
                if !sh.mine() {
                    continue;
                }
                let mut vals = vec![Bits::ones(kk)];
                if kk % 10 == 0 || tier == Tier::Thorough {
                    let mut hot = Bits::zeros(kk);
                    hot.0[kk - 1] = true;
                    vals.push(hot);
                }
                for a in vals {
                    if !f(C14Case { a: Operand::canon(t, a), width: usize::MAX }) {
                        return;
                    }
                }
            }
        }
        // every LENGTH of every fixed type (the sweep further down varies the value at full length)
        for t in FIXED_TIDS {
            let c = fixed_cap(t).unwrap();
            for len in 0..=c {
                // the 70 400-bit type: every length up to 130, then a stride and the neighbourhood
                // of every 4096-bit boundary (decimal costs a long division per digit there)
                if t == TID_HUGE && len > 130 && len % 509 != 0 && (len + 2) % 4096 > 4 && len + 3 < c {
                    continue;
                }
                if !sh.mine() {
                    continue;
                }
                for a in [Bits::ones(len), realize_val(&ValPat::Dense(vec![0x9E37_79B9_7F4A_7C15, 0xD1B5_4A32_D192_ED03, 0x0123_4567_89AB_CDEF]), len, 64)] {
                    let digits = (a.significant().max(1) + 3) / 4;
                    let width = if len > 400 { usize::MAX - 1 - (len % 2) } else if t == TID_HUGE && len > 64 { usize::MAX - 1 } else if len > 128 { digits + 2 } else { 0 };
                    if !f(C14Case { a: Operand::canon(t, a), width }) {
                        return;
                    }
                }
            }
        }
        // binary / octal / hex only (linear cost) far beyond the decimal sweep
        for t in [TID_D, TID_A] {
            let mut ks: Vec<usize> = (1301..=8300usize).step_by(13).collect();
            ks.extend((8300..=66_000usize).step_by(if t == TID_D { 97 } else { 997 }));
            for c in [2048usize, 4096, 4160, 4224, 8192, 12288, 16384, 32768, 49152, 65536] {
                ks.extend((c - 4)..=(c + 4));
            }
            ks.sort();
            ks.dedup();
            for kk in ks {
                if !sh.mine() {
                    continue;
                }
                let mut hot = Bits::zeros(kk);
                hot.0[kk - 1] = true;
                for (j, a) in [Bits::ones(kk), hot, realize_val(&ValPat::Dense(vec![0x9E37_79B9_7F4A_7C15, 0xD1B5_4A32_D192_ED03, 0x0123_4567_89AB_CDEF]), kk, 64)].into_iter().enumerate() {
                    // flags and padding beyond the digit count on one of the three values
                    if !f(C14Case { a: Operand::canon(t, a), width: if j == kk % 3 { usize::MAX - 2 } else { usize::MAX - 1 } }) {
                        return;
                    }
                }
            }
        }
        // binary / octal / hex on a geometric ladder of lengths up to megabits (Bvd, Bv)
        for (t, n) in ladder_lengths(tier) {
            if n < 66_000 {
                continue;
            }
            if !sh.mine() {
                continue;
            }
            let mut small_in_long = Bits::from_u128(0xdead_beef, n);
            small_in_long.0[n / 2 + 1] = true;
            for (j, a) in [dense_value(n), small_in_long, Bits::ones(n)].into_iter().enumerate() {
                if !f(C14Case { a: Operand::canon(t, a), width: if j == n % 3 { usize::MAX - 2 } else { usize::MAX - 1 } }) {
                    return;
                }
            }
        }
        for t in ROUTINE_TIDS {
            let c = fixed_cap(t).unwrap_or(320);
            for kk in 0..=c {
                if !sh.mine() {
                    continue;
                }
                let mut vals = vec![Bits::zeros(c), Bits::ones(kk).zext(c)];
                if kk < c {
                    let mut b = Bits::zeros(c);
                    b.0[kk] = true;
                    vals.push(b);
                }
                for a in vals {
                    let digits = (a.significant().max(1) + 3) / 4;
                    // beyond 400 bits: minimal set; decimal only for every 256th k (about 0.2 s per call at 2560 bits)
                    let width = if a.len() > 400 { if kk % 256 == 0 { usize::MAX } else { usize::MAX - 1 } } else { digits + 1 };
                    if !f(C14Case { a: Operand::canon(t, a), width }) {
                        return;
                    }
                }
            }
        }
    }
    fn check(&self, case: &C14Case, st: &mut Stats) -> CheckResult {
        let C14Case { a, width } = case;
        let what = format!("format:{}", kind_of(a.ty));
        let za = build_checked(a, "subject")?;
        let n = a.len();
        if n > 400 && *width < usize::MAX - 2 {
            crate::fail!("bad-case", "vectors longer than 400 bits use the minimal specification set");
        }
        // (decimal in every specification only where it is cheap: not on the 70 400-bit type,
        // whose long division walks 1100 words per step)
        let dec_all = n <= 128 && a.ty != TID_HUGE;
        let got = match catch(|| z_match!(&za, v => matrix(v, *width, dec_all))) {
            Ok(g) => g,
            Err(p) => fail!(format!("{}/panic", what), "formatting {} panicked: {}", a.describe(), p),
        };
        let big: BigUint = a.bits.to_big();
        let exp_big = matrix(&big, *width, dec_all);
        if a.bits.significant() <= 128 {
            let x: u128 = a.bits.low_u128();
            let exp = matrix(&x, *width, dec_all);
            // validate the wide oracle against std on this very case
            for (e, b) in exp.iter().zip(exp_big.iter()) {
                ensure!(e.1 == b.1, "oracle-disagreement", "oracle self-check: BigUint and u128 format {} differently for spec {} ({:?} vs {:?})", x, e.0, b.1, e.1);
            }
            for (g, e) in got.iter().zip(exp.iter()) {
                ensure!(g.1 == e.1, format!("{}/{}", what, radix_of(g.0)), "format!(\"{}\", {}) with width {} = {:?}, u128 gives {:?}", g.0, a.describe(), width, g.1, e.1);
            }
        } else {
            for (g, e) in got.iter().zip(exp_big.iter()) {
                ensure!(g.1 == e.1, format!("{}/{}", what, radix_of(g.0)), "format!(\"{}\", {}) with width {} = {:?}, BigUint gives {:?}", g.0, a.describe(), width, g.1, e.1);
            }
        }
        ensure!(got.len() == exp_big.len(), "harness", "matrix size mismatch");
        // a writer that fails part-way must see what std's integer formatting would have sent it,
        // and must not disturb the next formatting call
        if n <= 400 {
            let digits = a.bits.significant().max(1);
            let g = match catch(|| z_match!(&za, v => failing_sinks(v, digits))) {
                Ok(g) => g,
                Err(p) => fail!(format!("{}/failing-writer-panic", what), "formatting {} into a writer that runs out of room panicked: {}", a.describe(), p),
            };
            let e = failing_sinks(&big, digits);
            ensure!(g == e, format!("{}/failing-writer", what), "{}: formatting into a bounded writer and then formatting again gives {:?}, the integer gives {:?}", a.describe(), g, e);
        }
        // metamorphic: the strings depend on the value only
        if !st.light {
            let base = z_match!(&za, v => small(v));
            let mut others: Vec<(String, Z)> = vec![];
            let ext = fixed_cap(a.ty).map_or(n + 67, |c| c);
            others.push((format!("zero-extended to {}", ext), build_canon_z(a.ty, &a.bits.zext(ext))));
            others.push(("as Bvd".into(), build_canon_z(TID_D, &a.bits)));
            others.push(("as Bv".into(), build_canon_z(TID_A, &a.bits.zext(n + 1))));
            if n <= 136 {
                others.push(("as Bvf<u8,17>".into(), build_canon_z(4, &a.bits)));
            }
            for (name, z) in others {
                let s = z_match!(&z, v => small(v));
                ensure!(s == base, format!("{}/value-only", what), "{}: strings change when the same value is held {}: {:?} vs {:?}", a.describe(), name, s, base);
            }
        }
        let sig = a.bits.significant();
        st.class(a.prov.class());
        st.class_if(n == 0, "empty");
        st.class_if(n > 0 && sig == 0, "zero value");
        st.class_if(sig > 128, "beyond u128");
        st.class_if(sig + 4 <= n, "leading zero digit groups");
        st.note(case, n == 0 || sig == 0 || sig + 4 <= n || sig > 64);
        Ok(())
    }
    fn assumptions(&self) -> Vec<String> {
        vec!["oracle above 128 bits: num-bigint's Display/Binary/Octal/LowerHex/UpperHex, cross-checked against std u128 formatting on every case that fits 128 bits".into()]
    }
}

fn radix_of(spec: &str) -> &'static str {
    match spec.as_bytes()[spec.len() - 2] {
        b'b' => "binary",
        b'o' => "octal",
        b'x' => "lower-hex",
        b'X' => "upper-hex",
        _ => "decimal",
    }
}
