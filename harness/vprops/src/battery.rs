//! Observer battery (DESIGN.md 1.3): the executable form of "length and bits alone determine
//! the vector".  Every expectation is predicted from the model bits; the differential part
//! compares against a FRESH vector of the same type built canonically from the model.

use crate::engine::{CheckResult, Violation};
use num_bigint::BigUint;
use std::cmp::Ordering;
use std::hash::{Hash, Hasher};
use vcore::*;

#[derive(Clone, Copy, PartialEq, Eq, Debug)]
pub enum Strength {
    Light,
    Full,
}

/// A Hasher that records exactly what it is fed (bytes and call boundaries).
#[derive(Default, Clone, PartialEq, Eq, Debug)]
pub struct RecordingHasher {
    pub log: Vec<u8>,
}
impl Hasher for RecordingHasher {
    fn finish(&self) -> u64 {
        0
    }
    fn write(&mut self, bytes: &[u8]) {
        self.log.push(bytes.len() as u8);
        self.log.extend_from_slice(bytes);
    }
}

pub fn hash_stream<T: Hash>(v: &T) -> Vec<u8> {
    let mut h = RecordingHasher::default();
    v.hash(&mut h);
    h.log
}

fn viol(what: &str, observer: &str, msg: String) -> Violation {
    Violation { sig: format!("{}/obs:{}", what, observer), msg: format!("[{}] observer `{}`: {}", what, observer, msg) }
}

macro_rules! expect_eq {
    ($what:expr, $obs:expr, $got:expr, $exp:expr, $v:expr) => {{
        let got = $got;
        let exp = $exp;
        if got != exp {
            return Err(viol($what, $obs, format!("got {:?}, model predicts {:?}; raw storage {}", got, exp, $v.raw())));
        }
    }};
}

fn runs(model: &Bits) -> (usize, usize, usize, usize) {
    let n = model.len();
    let lz = model.0.iter().rev().take_while(|&&b| !b).count();
    let lo = model.0.iter().rev().take_while(|&&b| b).count();
    let tz = model.0.iter().take_while(|&&b| !b).count();
    let to = model.0.iter().take_while(|&&b| b).count();
    debug_assert!(lz <= n && lo <= n && tz <= n && to <= n);
    (lz, lo, tz, to)
}

/// Compare `v` with what the model predicts. `what` names the operation under test (it prefixes
/// the violation signature).
pub fn battery<T: Subject>(v: &T, model: &Bits, strength: Strength, what: &str) -> CheckResult {
    let n = model.len();
    // --- length and bits through the trusted read-back
    expect_eq!(what, "len", v.len(), n, v);
    for i in 0..n {
        if unbit(v.get(i)) != model.0[i] {
            return Err(viol(what, "get", format!("bit {} is {:?}, model predicts {}; got {} expected {}; raw storage {}", i, v.get(i), model.0[i] as u8, crate::spec::short(&read_bits(v)), crate::spec::short(model), v.raw())));
        }
    }
    if v.len() > BitVector::capacity(v) {
        return Err(viol(what, "capacity", format!("len {} > capacity {}", v.len(), BitVector::capacity(v))));
    }
    expect_eq!(what, "is_empty", v.is_empty(), n == 0, v);
    expect_eq!(what, "first", v.first().map(unbit), model.0.first().copied(), v);
    expect_eq!(what, "last", v.last().map(unbit), model.0.last().copied(), v);
    // --- raw-storage readers (these see padding pollution)
    expect_eq!(what, "is_zero", v.is_zero(), model.is_zero(), v);
    expect_eq!(what, "to_vec(Little)", v.to_vec(Endianness::Little), model.to_bytes_le(), v);
    expect_eq!(what, "{:x}", format!("{:x}", v), model.hex(), v);
    // --- differential against a fresh vector with the same bits
    let fresh: T = build_canon::<T>(model);
    if !(v == &fresh) || !(&fresh == v) {
        return Err(viol(what, "==fresh", format!("vector != freshly built vector with identical bits {}; raw storage {} vs fresh {}", crate::spec::short(model), v.raw(), fresh.raw())));
    }
    if v != &fresh {
        // `!=` is derived from `==` unless overridden; keep it observable
        return Err(viol(what, "!=fresh", "`!=` true against an identical fresh vector".to_string()));
    }
    if v.cmp(&fresh) != Ordering::Equal || fresh.cmp(v) != Ordering::Equal {
        return Err(viol(what, "cmp-fresh", format!("cmp against fresh vector with identical bits is {:?}/{:?}; raw storage {}", v.cmp(&fresh), fresh.cmp(v), v.raw())));
    }
    if hash_stream(v) != hash_stream(&fresh) {
        return Err(viol(what, "hash-fresh", format!("hash input differs from a fresh vector with identical bits; raw storage {} vs fresh {}", v.raw(), fresh.raw())));
    }
    // --- the vector used as the right operand of a same-type operator on a fresh, longer vector
    //     ("every subsequent operation gives the same result as on a fresh vector"): same-type
    //     operators read the operand's storage words directly, including words above `len`
    {
        let l = fixed_cap(T::TID).unwrap_or(n + 67);
        let (o, a) = v.rhs_probe(l);
        let e = model.zext(l);
        for (r, name) in [(&o, "fresh|=self"), (&a, "fresh+=self")] {
            let rb = read_bits(r);
            if rb != e {
                return Err(viol(what, name, format!("a fresh all-zero {}-bit vector combined with this vector gives {}, model predicts {}; raw storage of the operand {}", l, crate::spec::short(&rb), crate::spec::short(&e), v.raw())));
            }
        }
    }
    if strength == Strength::Light {
        return Ok(());
    }

    // ------------------------------------------------------------------ full battery
    expect_eq!(what, "iter", v.iter().map(unbit).collect::<Vec<bool>>(), model.0.clone(), v);
    expect_eq!(what, "iter.rev", v.iter().rev().map(unbit).collect::<Vec<bool>>(), model.0.iter().rev().copied().collect::<Vec<bool>>(), v);
    let mut be = model.to_bytes_le();
    be.reverse();
    expect_eq!(what, "to_vec(Big)", v.to_vec(Endianness::Big), be.clone(), v);
    let mut sink: Vec<u8> = Vec::new();
    if let Err(e) = v.write(&mut sink, Endianness::Little) {
        return Err(viol(what, "write", format!("write into a Vec failed: {}", e)));
    }
    expect_eq!(what, "write(Little)", sink, model.to_bytes_le(), v);
    let mut sink: Vec<u8> = Vec::new();
    let _ = v.write(&mut sink, Endianness::Big);
    expect_eq!(what, "write(Big)", sink, be, v);
    let (lz, lo, tz, to) = runs(model);
    expect_eq!(what, "leading_zeros", v.leading_zeros(), lz, v);
    expect_eq!(what, "leading_ones", v.leading_ones(), lo, v);
    expect_eq!(what, "trailing_zeros", v.trailing_zeros(), tz, v);
    expect_eq!(what, "trailing_ones", v.trailing_ones(), to, v);
    expect_eq!(what, "significant_bits", v.significant_bits(), model.significant(), v);

    // formatting (u128 / BigUint as oracle)
    let big: BigUint = model.to_big();
    expect_eq!(what, "{:b}", format!("{:b}", v), model.bin(), v);
    expect_eq!(what, "{:o}", format!("{:o}", v), format!("{:o}", big), v);
    expect_eq!(what, "{:X}", format!("{:X}", v), model.hex().to_uppercase(), v);
    expect_eq!(what, "{:#x}", format!("{:#x}", v), format!("0x{}", model.hex()), v);
    expect_eq!(what, "{:#012b}", format!("{:#012b}", v), format!("{:#012b}", big), v);
    if n <= 256 {
        expect_eq!(what, "{}", format!("{}", v), format!("{}", big), v);
    }

    // conversion to native integers: Ok(value) iff significant bits <= width
    let sig = model.significant();
    for ty in NAT_TYS {
        let got = v.to_nat(ty, false);
        let exp = if sig <= ty.bits() { Ok(model.low_u128()) } else { Err(ConvertionError::NotEnoughCapacity) };
        if got != exp {
            return Err(viol(what, &format!("{}::try_from", ty.name()), format!("got {:?}, model predicts {:?}; raw storage {}", got, exp, v.raw())));
        }
    }

    // conversions to the other implementations
    let z = v.clone().wrap();
    for dst in [TID_D, TID_A, 3 /* Bvf<u8,9> */, 11 /* Bvf<u64,3> */] {
        let r = tab_conv::convert(&z, dst, false).expect("by-ref conversion exists for every pair");
        let fits = fixed_cap(dst).map_or(true, |c| n <= c);
        match r {
            Ok(c) => {
                if !fits {
                    return Err(viol(what, &format!("->{}", NAMES[dst as usize]), format!("conversion of a {}-bit vector succeeded beyond capacity", n)));
                }
                let cb = read_bits_z(&c);
                if &cb != model {
                    return Err(viol(what, &format!("->{}", NAMES[dst as usize]), format!("converted vector has bits {} (len {}), model predicts {} (len {}); raw source {}", crate::spec::short(&cb), cb.len(), crate::spec::short(model), n, v.raw())));
                }
                if dst == TID_D || dst == TID_A {
                    // the converted vector must itself be clean
                    z_match!(&c, cv => battery(cv, model, Strength::Light, &format!("{}->{}", what, NAMES[dst as usize])))?;
                    // mixed-type comparison with a fresh vector of the other implementation, both orders
                    let fo = build_canon_z(dst, model);
                    let c1 = tab_cmp::compare(&z, &fo);
                    let c2 = tab_cmp::compare(&fo, &z);
                    for (c, dir) in [(c1, "self,fresh"), (c2, "fresh,self")] {
                        if !(c.eq && !c.ne && !c.lt && c.le && !c.gt && c.ge && c.partial == Some(Ordering::Equal)) {
                            return Err(viol(what, &format!("cmp-fresh-{}", NAMES[dst as usize]), format!("comparison ({}) with a fresh {} holding identical bits gives {:?}; raw storage {}", dir, NAMES[dst as usize], c, v.raw())));
                        }
                    }
                }
            }
            Err(e) => {
                if fits || e != ConvertionError::NotEnoughCapacity {
                    return Err(viol(what, &format!("->{}", NAMES[dst as usize]), format!("conversion of a {}-bit vector failed with {:?}", n, e)));
                }
            }
        }
    }

    // copy_range(0..len) and clone are identical copies
    let cr = v.copy_range(0..n);
    battery(&cr, model, Strength::Light, &format!("{}+copy_range(0..len)", what))?;
    let cl = v.clone();
    battery(&cl, model, Strength::Light, &format!("{}+clone", what))?;
    Ok(())
}

pub fn battery_z(z: &Z, model: &Bits, strength: Strength, what: &str) -> CheckResult {
    z_match!(z, v => battery(v, model, strength, what))
}
