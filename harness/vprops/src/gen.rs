//! Generators (DESIGN.md 1.4): everything is constructed, nothing is filtered.
//! Raw choices are mapped monotonically into the valid range so that shrinking moves toward
//! small / simple cases.

use crate::engine::Tier;
use crate::spec::*;
use proptest::collection::vec;
use proptest::prelude::*;
use vcore::*;

/// Max length for the unbounded types in routine generation.
pub fn lmax_dyn(tier: Tier) -> usize {
    tier.pick(320, 1100)
}

pub fn max_len(t: Tid, tier: Tier) -> usize {
    fixed_cap(t).unwrap_or(lmax_dyn(tier))
}

/// Boundary lattice of lengths for type `t`, clipped to its capacity / `lmax`.
pub fn len_lattice(t: Tid, lmax: usize) -> Vec<usize> {
    let w = WORD_BITS[t as usize];
    let c = fixed_cap(t).unwrap_or(lmax);
    let mut v: Vec<usize> = vec![
        0, 1, 2, 7, 8, 9, 15, 16, 17, 31, 32, 33, 63, 64, 65, 127, 128, 129, 191, 192, 193, 255, 256, 257,
    ];
    v.extend([w - 1, w, w + 1, 2 * w - 1, 2 * w, 2 * w + 1, c.saturating_sub(1), c]);
    if t == TID_HUGE {
        // absolute-size thresholds inside the 70 400-bit type
        v.extend([4095, 4096, 4097, 8191, 8192, 8193, 32767, 32768, 32769, 65535, 65536, 65537, c - 65, c - 64, c - 63]);
    }
    v.retain(|&x| x <= c);
    v.sort();
    v.dedup();
    v
}

#[derive(Clone, Debug)]
pub enum LenSel {
    Lattice(u8),
    Uniform(u16),
    /// thousands of bits (unbounded types only; a fixed type falls back to its lattice)
    Huge(u8),
}

/// Lengths far beyond the routine range, around powers of two and one odd size.
pub const HUGE_LENS: [usize; 13] = [1023, 1024, 1025, 1343, 2047, 2048, 2049, 2500, 4095, 4096, 4097, 6000, 8193];

pub fn arb_len_sel() -> impl Strategy<Value = LenSel> {
    prop_oneof![
        10 => any::<u8>().prop_map(LenSel::Lattice),
        10 => any::<u16>().prop_map(LenSel::Uniform),
        1 => any::<u8>().prop_map(LenSel::Huge),
    ]
}

pub fn frac(f: u16, n_choices: usize) -> usize {
    // monotone map of a 16-bit fraction onto 0..n_choices
    ((f as usize) * n_choices) >> 16
}

pub fn realize_len(sel: &LenSel, t: Tid, lmax: usize) -> usize {
    match sel {
        LenSel::Lattice(i) => {
            let l = len_lattice(t, lmax);
            l[((*i as usize) * l.len()) >> 8]
        }
        LenSel::Uniform(f) => frac(*f, fixed_cap(t).unwrap_or(lmax) + 1),
        LenSel::Huge(i) => {
            if let Some(c) = fixed_cap(t) {
                let mut l = len_lattice(t, lmax);
                if c >= 1023 {
                    l.extend(HUGE_LENS.iter().copied().filter(|&x| x <= c));
                    l.sort();
                }
                l[((*i as usize) * l.len()) >> 8]
            } else {
                HUGE_LENS[((*i as usize) * HUGE_LENS.len()) >> 8]
            }
        }
    }
}

/// Value patterns (DESIGN.md 1.4 "Values").
#[derive(Clone, Debug)]
pub enum ValPat {
    Zero,
    Ones,
    OneHot(u16),
    LowOnes(u16),
    HighOnes(u16),
    Runs(bool, Vec<u8>),
    Alt(bool),
    WordPat(Vec<u8>, Vec<u64>),
    Sparse(Vec<u16>),
    Dense(Vec<u64>),
}

pub fn arb_valpat() -> impl Strategy<Value = ValPat> {
    prop_oneof![
        1 => Just(ValPat::Zero),
        1 => Just(ValPat::Ones),
        2 => any::<u16>().prop_map(ValPat::OneHot),
        2 => any::<u16>().prop_map(ValPat::LowOnes),
        2 => any::<u16>().prop_map(ValPat::HighOnes),
        3 => (any::<bool>(), vec(any::<u8>(), 1..12)).prop_map(|(f, r)| ValPat::Runs(f, r)),
        1 => any::<bool>().prop_map(ValPat::Alt),
        4 => (vec(any::<u8>(), 1..18), vec(any::<u64>(), 4)).prop_map(|(s, r)| ValPat::WordPat(s, r)),
        2 => vec(any::<u16>(), 1..6).prop_map(ValPat::Sparse),
        4 => vec(any::<u64>(), 18).prop_map(ValPat::Dense),
    ]
}

const RUN_TABLE: [usize; 32] = [
    1, 1, 2, 3, 4, 5, 6, 7, 8, 9, 10, 13, 15, 16, 17, 24, 31, 32, 33, 40, 47, 48, 49, 63, 64, 65, 96, 127, 128, 129, 190, 256,
];

fn mix(x: u64) -> u64 {
    let mut z = x.wrapping_add(0x9E37_79B9_7F4A_7C15);
    z = (z ^ (z >> 30)).wrapping_mul(0xBF58_476D_1CE4_E5B9);
    z = (z ^ (z >> 27)).wrapping_mul(0x94D0_49BB_1331_11EB);
    z ^ (z >> 31)
}

/// Word of a dense pattern at index j (pure function of the generated words).
fn dense_word(ws: &[u64], j: usize) -> u64 {
    if ws.is_empty() {
        return 0;
    }
    let base = ws[j % ws.len()];
    let round = (j / ws.len()) as u64;
    if round == 0 {
        base
    } else {
        mix(base ^ round.wrapping_mul(0xA24B_AED4_963E_E407))
    }
}

/// Realise a value pattern as `n` bits for a type whose storage word has `w` bits.
pub fn realize_val(p: &ValPat, n: usize, w: usize) -> Bits {
    let mut b = vec![false; n];
    match p {
        ValPat::Zero => {}
        ValPat::Ones => b.iter_mut().for_each(|x| *x = true),
        ValPat::OneHot(f) => {
            if n > 0 {
                b[frac(*f, n)] = true;
            }
        }
        ValPat::LowOnes(f) => {
            let k = frac(*f, n + 1);
            b[..k].iter_mut().for_each(|x| *x = true);
        }
        ValPat::HighOnes(f) => {
            let k = frac(*f, n + 1);
            b[n - k..].iter_mut().for_each(|x| *x = true);
        }
        ValPat::Runs(first, runs) => {
            let mut cur = *first;
            let mut i = 0;
            let mut j = 0;
            while i < n {
                let r = RUN_TABLE[(runs[j % runs.len()] >> 3) as usize];
                for _ in 0..r {
                    if i < n {
                        b[i] = cur;
                        i += 1;
                    }
                }
                cur = !cur;
                j += 1;
            }
        }
        ValPat::Alt(first) => {
            for i in 0..n {
                b[i] = (i % 2 == 0) == *first;
            }
        }
        ValPat::WordPat(sel, rnd) => {
            let nw = (n + w - 1) / w.max(1);
            for j in 0..nw {
                let s = sel[j % sel.len()] % 7;
                for k in 0..w {
                    let i = j * w + k;
                    if i >= n {
                        break;
                    }
                    b[i] = match s {
                        0 => false,                  // 0
                        1 => k == 0,                 // 1
                        2 => k != 0,                 // MAX-1
                        3 => true,                   // MAX
                        4 => k == w - 1,             // MSB
                        5 => k != w - 1,             // MSB-1
                        _ => (dense_word(rnd, j * 2 + k / 64) >> (k % 64)) & 1 == 1,
                    };
                }
            }
        }
        ValPat::Sparse(fs) => {
            if n > 0 {
                for f in fs {
                    b[frac(*f, n)] = true;
                }
            }
        }
        ValPat::Dense(ws) => {
            for i in 0..n {
                b[i] = (dense_word(ws, i / 64) >> (i % 64)) & 1 == 1;
            }
        }
    }
    Bits(b)
}

pub fn arb_prov() -> impl Strategy<Value = Prov> {
    prop_oneof![
        6 => Just(Prov::Canon),
        1 => Just(Prov::FromBinary),
        1 => Just(Prov::Pushed),
        1 => Just(Prov::Collected),
        2 => (0..NT).prop_map(Prov::Via),
        3 => prop_oneof![Just(1u16), Just(63), Just(64), Just(65), Just(200), Just(4200), Just(9000), 0u16..2000].prop_map(Prov::Spare),
        3 => prop_oneof![Just(1u16), Just(64), Just(129), Just(200), 1u16..400].prop_map(Prov::LongThenTrunc),
        1 => Just(Prov::NotNot),
        1 => any::<u16>().prop_map(Prov::RotRound),
        1 => any::<bool>().prop_map(Prov::ShiftInOut),
        1 => Just(Prov::BytesTrunc),
        1 => any::<bool>().prop_map(Prov::ReadSurplus),
        1 => (0..NT).prop_map(Prov::AddVec),
        1 => arb_nat_ty().prop_map(Prov::SubNat),
        1 => (0..NT).prop_map(Prov::OrLonger),
        1 => prop_oneof![Just(70_000u32), Just(262_144), Just(300_000), Just(1_100_000)].prop_map(Prov::HugeSpare),
        1 => prop_oneof![Just(66_000u32), Just(140_000), Just(300_000)].prop_map(Prov::ShrunkFrom),
        2 => any::<u16>().prop_map(Prov::TruncThenPush),
    ]
}

/// Zoo type index; the two unbounded types are drawn three times as often as each fixed shape,
/// the 70 400-bit fixed type about once in a hundred (its operations cost milliseconds).
pub fn arb_tid() -> impl Strategy<Value = Tid> {
    prop_oneof![
        72 => (0usize..26).prop_map(|i| ROUTINE_FIXED[i]),
        12 => Just(TID_D),
        12 => Just(TID_A),
        1 => Just(TID_HUGE),
    ]
}

pub fn make_operand(t: Tid, ls: &LenSel, vp: &ValPat, prov: Prov, lmax: usize) -> Operand {
    let n = realize_len(ls, t, lmax);
    Operand { ty: t, bits: realize_val(vp, n, WORD_BITS[t as usize]), prov }
}

/// Any operand of any zoo type.
pub fn arb_operand(tier: Tier) -> BoxedStrategy<Operand> {
    let lmax = lmax_dyn(tier);
    (arb_tid(), arb_len_sel(), arb_valpat(), arb_prov()).prop_map(move |(t, ls, vp, pr)| make_operand(t, &ls, &vp, pr, lmax)).boxed()
}

/// Any operand of one given type.
pub fn arb_operand_of(t: Tid, tier: Tier) -> BoxedStrategy<Operand> {
    let lmax = lmax_dyn(tier);
    (arb_len_sel(), arb_valpat(), arb_prov()).prop_map(move |(ls, vp, pr)| make_operand(t, &ls, &vp, pr, lmax)).boxed()
}

/// Canonical-provenance operand (used where provenance is not the subject).
pub fn arb_operand_canon(tier: Tier) -> BoxedStrategy<Operand> {
    let lmax = lmax_dyn(tier);
    (arb_tid(), arb_len_sel(), arb_valpat()).prop_map(move |(t, ls, vp)| make_operand(t, &ls, &vp, Prov::Canon, lmax)).boxed()
}

pub fn arb_nat_ty() -> impl Strategy<Value = NatTy> {
    prop_oneof![Just(NatTy::U8), Just(NatTy::U16), Just(NatTy::U32), Just(NatTy::U64), Just(NatTy::U128), Just(NatTy::Usize),]
}

/// The integer lattice of DESIGN.md 1.4 intersected with the type's range.
pub fn nat_lattice(ty: NatTy) -> Vec<u128> {
    let mut v: Vec<u128> = vec![0, 1, 2, 3];
    for k in [7u32, 8, 15, 16, 31, 32, 63, 64, 127] {
        let p = 1u128 << k;
        v.extend([p - 1, p, p + 1]);
    }
    v.extend([ty.maxv() - 1, ty.maxv()]);
    v.retain(|&x| x <= ty.maxv());
    v.sort();
    v.dedup();
    v
}

pub fn arb_nat() -> BoxedStrategy<Nat> {
    (arb_nat_ty(), prop_oneof![2 => any::<u8>().prop_map(|i| (0u8, i as u128)), 1 => (0u128..400).prop_map(|x| (1u8, x)), 2 => any::<u128>().prop_map(|x| (2u8, x))])
        .prop_map(|(ty, (kind, x))| match kind {
            0 => {
                let l = nat_lattice(ty);
                Nat::new(ty, l[((x as usize) * l.len()) >> 8])
            }
            1 => Nat::new(ty, x),
            _ => {
                // uniform over the type, but with a random number of significant bits
                let bits = ty.bits();
                let keep = ((x >> 120) as usize * (bits + 1)) >> 8;
                let v = if keep == 0 { 0 } else if keep >= 128 { x } else { x & ((1u128 << keep) - 1) };
                Nat::new(ty, v)
            }
        })
        .boxed()
}

/// Right-hand operand: a vector of any type/length/provenance (3 in 4) or a native integer.
pub fn arb_rhs(tier: Tier) -> BoxedStrategy<Rhs> {
    prop_oneof![
        3 => arb_operand(tier).prop_map(Rhs::V),
        1 => arb_nat().prop_map(Rhs::N),
    ]
    .boxed()
}

/// All bit lists of length n in increasing numeric order (n <= 20).
pub fn all_values(n: usize) -> impl Iterator<Item = Bits> {
    (0u64..(1u64 << n)).map(move |v| Bits::from_u128(v as u128, n))
}

/// Three standard value classes for length sweeps: all ones, alternating starting with 1,
/// and a fixed pseudo-random pattern.
pub fn three_values(n: usize) -> [Bits; 3] {
    [
        Bits::ones(n),
        realize_val(&ValPat::Alt(true), n, 8),
        realize_val(&ValPat::Dense(vec![0x9E37_79B9_7F4A_7C15, 0xD1B5_4A32_D192_ED03, 0x8CB9_2BA7_2F3D_8DD7]), n, 8),
    ]
}

/// Lengths for the "thousands of bits" enumerations of the unbounded types.
pub const LONG_LENS: [usize; 7] = [1024, 1025, 1343, 2048, 4097, 6000, 8193];

/// Value classes for long vectors: all ones, dense, only the top bit, top bit plus a low part,
/// a small value, one all-zero interior stretch.
pub fn long_values(n: usize) -> Vec<Bits> {
    let dense = realize_val(&ValPat::Dense(vec![0x9E37_79B9_7F4A_7C15, 0xD1B5_4A32_D192_ED03, 0x0123_4567_89AB_CDEF, 0xFEDC_BA98_7654_3210]), n, 64);
    let mut hot = Bits::zeros(n);
    hot.0[n - 1] = true;
    let mut hot_low = hot.clone();
    for i in 0..n.min(16) {
        hot_low.0[i] = (0xdeadu32 >> i) & 1 == 1;
    }
    let mut gap = dense.clone();
    for i in (n / 3)..(2 * n / 3) {
        gap.0[i] = false;
    }
    vec![Bits::ones(n), dense, hot, hot_low, Bits::from_u128(5, n), gap]
}

/// Upper end of the dense "every length" sweeps of the unbounded types (catches behaviour tied
/// to a WINDOW of lengths between the lattice points).
pub fn dense_max(tier: Tier) -> usize {
    tier.pick(2600, 8300)
}

/// (type, length) pairs of the dense sweep: every length above the routine range, the two
/// unbounded types alternating.
pub fn dense_lengths(tier: Tier) -> impl Iterator<Item = (Tid, usize)> {
    (321..=dense_max(tier)).map(|n| (if n % 2 == 0 { TID_D } else { TID_A }, n))
}

/// Geometric ladder of very long lengths for the unbounded types: around every power of two from
/// 2^14 up to 2^21 (quick) / 2^24 (thorough) bits - absolute-size thresholds (a block size, a
/// "large input" fast path) between the dense sweep and a few megabytes.
pub fn ladder_lengths(tier: Tier) -> Vec<(Tid, usize)> {
    let kmax = tier.pick(21, 24);
    let mut v = Vec::new();
    for k in 14..=kmax {
        let p = 1usize << k;
        for (j, n) in [p - 1, p, p + 1, p + 8 * k + 3, p + p / 2 + 5].into_iter().enumerate() {
            v.push((if (j + k) % 2 == 0 { TID_D } else { TID_A }, n));
        }
    }
    v
}

/// Type pairings that involve the 70 400-bit fixed type, and the lengths explored on it.
pub const HUGE_PAIRS: [(Tid, Tid); 7] = [(TID_HUGE, TID_HUGE), (TID_HUGE, TID_D), (TID_HUGE, TID_A), (TID_D, TID_HUGE), (TID_A, TID_HUGE), (TID_HUGE, 18), (18, TID_HUGE)];
pub const HUGE_TYPE_LENS: [usize; 7] = [131, 4097, 8193, 65535, 65537, 70399, 70400];

pub fn dense_value(n: usize) -> Bits {
    realize_val(&ValPat::Dense(vec![0x9E37_79B9_7F4A_7C15, 0xD1B5_4A32_D192_ED03, 0x0123_4567_89AB_CDEF, 0xFEDC_BA98_7654_3210, 0x0F1E_2D3C_4B5A_6978]), n, 64)
}
