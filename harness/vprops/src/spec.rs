//! Serializable descriptions of operands and how they are brought into existence
//! ("provenance", DESIGN.md 1.4). Everything is built through the public API only.

use serde::{Deserialize, Serialize};
use vcore::*;

/// How an operand came to exist. The property "never on how the operands were produced"
/// quantifies over these.
#[derive(Clone, Debug, PartialEq, Eq, Hash, Serialize, Deserialize)]
pub enum Prov {
    /// zeros(n) + set(i)
    Canon,
    /// from_binary(string)
    FromBinary,
    /// with_capacity(0) then push each bit
    Pushed,
    /// iterator.collect()
    Collected,
    /// built canonically as another zoo type, then converted with From/TryFrom
    Via(Tid),
    /// canonical, then reserve(k) (dynamic / auto only)
    Spare(u16),
    /// built `extra` bits longer with ONES above, then truncated back (leaves spare capacity, and a
    /// heap-mode `Bv` when the long length exceeds the inline limit)
    LongThenTrunc(u16),
    /// !!x
    NotNot,
    /// rotl(k) then rotr(k)
    RotRound(u16),
    /// shl_in(b) then shr_in(out)
    ShiftInOut(bool),
    /// from_bytes with all surplus bits of the top byte set, then truncate to n
    BytesTrunc,
    /// read(reader, n, endianness) from bytes whose surplus bits are set
    ReadSurplus(bool),
    /// produced by arithmetic: (v - ones(m)) built canonically, then `+= &ones(m)` with the operand
    /// held in another zoo type (m = min(n, its capacity)); wraps around whenever v < 2^m - 1
    AddVec(Tid),
    /// produced by arithmetic: (v + c) built canonically, then `-= c` with a native integer c
    SubNat(NatTy),
    /// produced by logic: v | b where b (another zoo type) is longer than v and all ones above n
    OrLonger(Tid),
    /// built longer with ONES above, truncated to a fraction k of n, then the remaining bits
    /// k..n pushed back one at a time (push writes single bits into words a shrink left behind)
    TruncThenPush(u16),
    /// canonical, then reserve(k) with k in the hundreds of thousands of bits (dynamic / auto):
    /// an allocation of tens of kilobytes behind a short vector
    HugeSpare(u32),
    /// like `LongThenTrunc`, `extra` up to hundreds of thousands of bits
    ShrunkFrom(u32),
}

impl Prov {
    pub fn class(&self) -> &'static str {
        match self {
            Prov::Canon => "prov:canon",
            Prov::FromBinary => "prov:from_binary",
            Prov::Pushed => "prov:pushed",
            Prov::Collected => "prov:collected",
            Prov::Via(_) => "prov:converted",
            Prov::Spare(_) => "prov:spare-capacity",
            Prov::LongThenTrunc(_) => "prov:long-then-truncated",
            Prov::NotNot => "prov:not-not",
            Prov::RotRound(_) => "prov:rot-roundtrip",
            Prov::ShiftInOut(_) => "prov:shift-in-out",
            Prov::BytesTrunc => "prov:bytes-truncated",
            Prov::ReadSurplus(_) => "prov:read-surplus",
            Prov::AddVec(_) => "prov:sum-with-other-type",
            Prov::SubNat(_) => "prov:difference-with-native",
            Prov::OrLonger(_) => "prov:or-with-longer",
            Prov::TruncThenPush(_) => "prov:truncated-then-pushed",
            Prov::HugeSpare(_) => "prov:huge-spare-capacity",
            Prov::ShrunkFrom(_) => "prov:shrunk-from-much-longer",
        }
    }
}

#[derive(Clone, Debug, PartialEq, Eq, Hash, Serialize, Deserialize)]
pub struct Operand {
    pub ty: Tid,
    pub bits: Bits,
    pub prov: Prov,
}

impl Operand {
    /// Canonical operand. Enumerators written for "every length up to k" hand in bit lists that
    /// may exceed a tiny capacity (the zero-word types hold nothing): those are cut to the capacity
    /// (high bits dropped), which only repeats cases.
    pub fn canon(ty: Tid, mut bits: Bits) -> Operand {
        if let Some(c) = fixed_cap(ty) {
            if bits.len() > c {
                bits.0.truncate(c);
            }
        }
        Operand { ty, bits, prov: Prov::Canon }
    }
    /// Same clipping for an operand with an explicit provenance.
    pub fn fitted(ty: Tid, bits: Bits, prov: Prov) -> Operand {
        let mut o = Operand::canon(ty, bits);
        o.prov = prov;
        o
    }
    pub fn len(&self) -> usize {
        self.bits.len()
    }
    pub fn build(&self) -> Z {
        tid_match!(self.ty, T => build::<T>(&self.bits, &self.prov).wrap())
    }
    pub fn describe(&self) -> String {
        format!("{}[{}]={} ({})", NAMES[self.ty as usize], self.bits.len(), short(&self.bits), self.prov.class())
    }
}

pub fn short(b: &Bits) -> String {
    if b.len() <= 140 {
        format!("0b{}", b.msb_string())
    } else if b.len() <= 8192 {
        format!("0x{} (len {})", b.hex(), b.len())
    } else {
        // megabit values: both ends (the replay file holds the whole case)
        let h = b.hex();
        format!("0x{}...[{} hex digits omitted]...{} (len {}, {} bits set)", &h[..48], h.len() - 96, &h[h.len() - 48..], b.len(), b.popcount())
    }
}

#[derive(Clone, Debug, PartialEq, Eq, Hash, Serialize, Deserialize)]
pub enum Rhs {
    V(Operand),
    N(Nat),
}

impl Rhs {
    pub fn bits(&self) -> Bits {
        match self {
            Rhs::V(o) => o.bits.clone(),
            Rhs::N(n) => Bits::from_u128(n.v, n.ty.bits()),
        }
    }
    pub fn len(&self) -> usize {
        match self {
            Rhs::V(o) => o.bits.len(),
            Rhs::N(n) => n.ty.bits(),
        }
    }
    pub fn describe(&self) -> String {
        match self {
            Rhs::V(o) => o.describe(),
            Rhs::N(n) => format!("{}{}", n.v, n.ty.name()),
        }
    }
}

/// Built right-hand side (owns the vector if any).
pub enum BuiltRhs {
    V(Z),
    N(Nat),
}
impl BuiltRhs {
    pub fn of(r: &Rhs) -> BuiltRhs {
        match r {
            Rhs::V(o) => BuiltRhs::V(o.build()),
            Rhs::N(n) => BuiltRhs::N(*n),
        }
    }
    pub fn as_ref(&self) -> RhsRef<'_> {
        match self {
            BuiltRhs::V(z) => RhsRef::V(z),
            BuiltRhs::N(n) => RhsRef::N(*n),
        }
    }
}

fn cap_of<T: Subject>() -> Option<usize> {
    fixed_cap(T::TID)
}

/// Construct a `T` holding `bits` following provenance `prov`. A provenance that does not apply
/// to `T` or to this length degrades to the canonical one (sound by construction: every path uses
/// only documented public operations within their preconditions).
pub fn build<T: Subject>(bits: &Bits, prov: &Prov) -> T {
    let n = bits.len();
    let cap = cap_of::<T>();
    match prov {
        Prov::Canon => build_canon::<T>(bits),
        Prov::FromBinary => T::from_binary(bits.msb_string()).expect("from_binary of a fitting 0/1 string"),
        Prov::Pushed => {
            let mut v = T::with_capacity(0);
            for &b in &bits.0 {
                v.push(bit(b));
            }
            v
        }
        Prov::Collected => from_iter_dispatch::<T>(bits),
        Prov::Via(t2) => {
            let t2 = match fixed_cap(*t2) {
                Some(c) if c < n => TID_D,
                _ => *t2,
            };
            let src = build_canon_z(t2, bits);
            let z = tab_conv::convert(&src, T::TID, false).expect("by-ref conversion exists").expect("fitting conversion");
            T::from_z(z).expect("conversion returned the requested type")
        }
        Prov::Spare(k) => {
            let mut v = build_canon::<T>(bits);
            v.reserve_x(*k as usize);
            v
        }
        Prov::HugeSpare(k) => {
            let mut v = build_canon::<T>(bits);
            v.reserve_x(*k as usize);
            v
        }
        Prov::ShrunkFrom(extra) => {
            let mut m = n + (*extra as usize);
            if let Some(c) = cap {
                m = m.min(c);
            }
            let mut v = T::ones(m);
            v.truncate(n);
            for (i, &b) in bits.0.iter().enumerate() {
                if !b {
                    v.set(i, bit(false));
                }
            }
            v
        }
        Prov::LongThenTrunc(extra) => {
            let mut m = n + (*extra as usize);
            if let Some(c) = cap {
                m = m.min(c);
            }
            let mut long = bits.clone();
            long.0.resize(m, true);
            let mut v = build_canon::<T>(&long);
            v.truncate(n);
            v
        }
        Prov::NotNot => {
            let v = build_canon::<T>(bits);
            let w = v.not_x(false);
            w.not_x(true)
        }
        Prov::RotRound(k) => {
            let mut v = build_canon::<T>(bits);
            if n > 0 {
                let k = (*k as usize * (n + 1)) >> 16;
                v.rotl(k);
                v.rotr(k);
            }
            v
        }
        Prov::ShiftInOut(b) => {
            let mut v = build_canon::<T>(bits);
            let out = v.shl_in(bit(*b));
            let _ = v.shr_in(out);
            v
        }
        Prov::BytesTrunc => {
            let nb = (n + 7) / 8;
            if cap.map_or(true, |c| nb * 8 <= c) {
                let mut bytes = bits.to_bytes_le();
                if n % 8 != 0 {
                    bytes[nb - 1] |= 0xffu8 << (n % 8);
                }
                let mut v = T::from_bytes(&bytes, Endianness::Little).expect("fitting from_bytes");
                v.truncate(n);
                v
            } else {
                build_canon::<T>(bits)
            }
        }
        Prov::ReadSurplus(big) => {
            let nb = (n + 7) / 8;
            let mut bytes = bits.to_bytes_le();
            if n % 8 != 0 {
                bytes[nb - 1] |= 0xffu8 << (n % 8);
            }
            let e = if *big {
                bytes.reverse();
                Endianness::Big
            } else {
                Endianness::Little
            };
            let mut rd: &[u8] = &bytes;
            T::read(&mut rd, n, e).expect("read of a fitting length from enough bytes")
        }
        Prov::AddVec(t2) => {
            if n == 0 {
                return build_canon::<T>(bits);
            }
            let m = n.min(fixed_cap(*t2).unwrap_or(n));
            let md = pow2(n);
            let b = Bits::ones(m);
            let a = (bits.to_big() + &md - b.to_big()) % &md;
            let za = build_canon::<T>(&Bits::from_big(&a, n)).wrap();
            let zb = build_canon_z(*t2, &b);
            let r = tab_arith::apply(&za, RhsRef::V(&zb), BinOp::Add, Form::AssignRef);
            T::from_z(r).expect("same type")
        }
        Prov::SubNat(nty) => {
            if n == 0 {
                return build_canon::<T>(bits);
            }
            let c: u128 = (0x9E37_79B9_7F4A_7C15_F39C_C060_5CED_C835u128 | 1) & (*nty).maxv();
            let md = pow2(n);
            let a = (bits.to_big() + num_bigint::BigUint::from(c)) % &md;
            let za = build_canon::<T>(&Bits::from_big(&a, n)).wrap();
            let r = tab_arith::apply(&za, RhsRef::N(Nat::new(*nty, c)), BinOp::Sub, Form::OwnOwn);
            T::from_z(r).expect("same type")
        }
        Prov::TruncThenPush(f) => {
            let k = (*f as usize * (n + 1)) >> 16;
            let mut m = n + 70;
            if let Some(c) = cap {
                m = m.min(c);
            }
            let mut long = bits.clone();
            long.0.resize(m, true);
            let mut v = build_canon::<T>(&long);
            v.truncate(k);
            for &b in &bits.0[k..] {
                v.push(bit(b));
            }
            v
        }
        Prov::OrLonger(t2) => {
            let c2 = fixed_cap(*t2).unwrap_or(n + 70);
            if c2 <= n {
                return build_canon::<T>(bits);
            }
            // b = the odd-indexed bits of v, then all ones above n; a = the even-indexed bits of v
            let mut b = Bits(bits.0.iter().enumerate().map(|(i, &x)| x && i % 2 == 1).collect());
            b.0.resize(c2.min(n + 70), true);
            let a = Bits(bits.0.iter().enumerate().map(|(i, &x)| x && i % 2 == 0).collect());
            let za = build_canon::<T>(&a).wrap();
            let zb = build_canon_z(*t2, &b);
            let r = tab_logic::apply(&za, RhsRef::V(&zb), BinOp::Or, Form::RefRef);
            T::from_z(r).expect("same type")
        }
    }
}

/// `collect::<T>()` needs `T: FromIterator<Bit>`, which is not part of `BitVector`; dispatch.
pub fn from_iter_dispatch<T: Subject>(bits: &Bits) -> T {
    let z: Z = tid_match!(T::TID, U => bits.0.iter().map(|&b| bit(b)).collect::<U>().wrap());
    T::from_z(z).expect("same type")
}
