//! Dispatch table: `& | ^` for every (LHS type x RHS type/native) x form.
use vcore::*;

pub fn apply(l: &Z, r: RhsRef<'_>, op: BinOp, form: Form) -> Z {
    match r {
        RhsRef::V(r) => z_match!(l, a => z_match!(r, b => match op {
            BinOp::And => apply_forms!(form, a, b, &, &=).wrap(),
            BinOp::Or => apply_forms!(form, a, b, |, |=).wrap(),
            BinOp::Xor => apply_forms!(form, a, b, ^, ^=).wrap(),
            _ => unreachable!("tab_logic: not a logic operator"),
        })),
        RhsRef::N(n) => z_match!(l, a => nat_match!(n, k => match op {
            BinOp::And => apply_forms!(form, a, (&k), &, &=).wrap(),
            BinOp::Or => apply_forms!(form, a, (&k), |, |=).wrap(),
            BinOp::Xor => apply_forms!(form, a, (&k), ^, ^=).wrap(),
            _ => unreachable!("tab_logic: not a logic operator"),
        })),
    }
}

/// `&a op &a` with BOTH operands being the very same object (aliased references).
pub fn apply_self(l: &Z, op: BinOp) -> Z {
    z_match!(l, a => match op {
        BinOp::And => (a & a).wrap(),
        BinOp::Or => (a | a).wrap(),
        BinOp::Xor => (a ^ a).wrap(),
        _ => unreachable!("wrong table"),
    })
}
