//! Dispatch table: `& | ^` for every (LHS type x RHS type/native) x form.
use vcore::*;

pub fn apply(l: &Z, r: RhsRef<'_>, op: BinOp, form: Form) -> Z {
    match r {
        RhsRef::V(r) => z_match!(l, a => z_match!(r, b => match op {
            BinOp::And => apply_forms!(form, a, b, &, &=).wrap(),
            BinOp::Or => apply_forms!(form, a, b, |, |=).wrap(),
            BinOp::Xor => apply_forms!(form, a, b, ^, ^=).wrap(),
            _ => unreachable!("tab_logic: not a logic operator"),
        })),
        RhsRef::N(n) => z_match!(l, a => nat_match!(n, k => match op {
            BinOp::And => apply_forms!(form, a, (&k), &, &=).wrap(),
            BinOp::Or => apply_forms!(form, a, (&k), |, |=).wrap(),
            BinOp::Xor => apply_forms!(form, a, (&k), ^, ^=).wrap(),
            _ => unreachable!("tab_logic: not a logic operator"),
        })),
    }
}
