//! The type universe: 16 `Bvf<I,N>` shapes + `Bvd` + `Bv` (DESIGN.md 1.1).

pub use bva::{Bit, BitVector, Bv, Bvd, Bvf, ConvertionError, Endianness};
use serde::{Deserialize, Serialize};

pub type F8x1 = Bvf<u8, 1>;
pub type F8x2 = Bvf<u8, 2>;
pub type F8x3 = Bvf<u8, 3>;
pub type F8x9 = Bvf<u8, 9>;
pub type F8x17 = Bvf<u8, 17>;
pub type F16x1 = Bvf<u16, 1>;
pub type F16x3 = Bvf<u16, 3>;
pub type F32x1 = Bvf<u32, 1>;
pub type F32x3 = Bvf<u32, 3>;
pub type F64x1 = Bvf<u64, 1>;
pub type F64x2 = Bvf<u64, 2>;
pub type F64x3 = Bvf<u64, 3>;
pub type F128x1 = Bvf<u128, 1>;
pub type F128x2 = Bvf<u128, 2>;
pub type Fszx1 = Bvf<usize, 1>;
pub type Fszx2 = Bvf<usize, 2>;
/// A fixed type far larger than every alias of the crate (2560 bits, 80 words): size-threshold
/// dependent behaviour (128/256-byte stack buffers, chunked loops) only shows on something this big.
pub type F32x80 = Bvf<u32, 80>;
/// 20 bytes: capacity above the inline `Bv` limit with a byte size that is a multiple of neither
/// 8 nor 16 and N % 4 == 2 (re-chunking into wider words leaves more than one word over).
pub type F16x10 = Bvf<u16, 10>;
/// 70 400 bits in 1100 words (8800 bytes): beyond 2^16 bits, beyond any 4 or 8 KiB stack buffer
/// and any 64-/128-/1024-word staging array. Boxed inside `Z` so that `Z` stays small.
pub type F64x1100 = Bvf<u64, 1100>;
/// Zero storage words: a legal instantiation whose only value is the empty vector. Everything
/// that indexes word 0 or computes N - 1 without looking at N shows here.
pub type F8x0 = Bvf<u8, 0>;
pub type F64x0 = Bvf<u64, 0>;
/// The crate's remaining named aliases (Bv256 ... Bv512: 4 to 8 u64 words, so every N % 8 up to
/// 7 and a capacity of exactly 512 bits) and a three-word u128 shape (a middle word).
pub type F64x4 = Bvf<u64, 4>;
pub type F64x5 = Bvf<u64, 5>;
pub type F64x6 = Bvf<u64, 6>;
pub type F64x7 = Bvf<u64, 7>;
pub type F64x8 = Bvf<u64, 8>;
pub type F128x3 = Bvf<u128, 3>;

/// One value of any zoo type.
#[derive(Clone, Debug)]
pub enum Z {
    F8x1(F8x1),
    F8x2(F8x2),
    F8x3(F8x3),
    F8x9(F8x9),
    F8x17(F8x17),
    F16x1(F16x1),
    F16x3(F16x3),
    F32x1(F32x1),
    F32x3(F32x3),
    F64x1(F64x1),
    F64x2(F64x2),
    F64x3(F64x3),
    F128x1(F128x1),
    F128x2(F128x2),
    Fszx1(Fszx1),
    Fszx2(Fszx2),
    D(Bvd),
    A(Bv),
    F32x80(F32x80),
    F16x10(F16x10),
    F64x1100(Box<F64x1100>),
    F8x0(F8x0),
    F64x0(F64x0),
    F64x4(F64x4),
    F64x5(F64x5),
    F64x6(F64x6),
    F64x7(F64x7),
    F64x8(F64x8),
    F128x3(F128x3),
}

/// Lets `z_match!` bind the content of a boxed variant like an unboxed one, whether `Z` is
/// matched by value, by reference or by mutable reference.
pub trait Unbox {
    type Out;
    fn unbox(self) -> Self::Out;
}
impl<T> Unbox for Box<T> {
    type Out = T;
    fn unbox(self) -> T {
        *self
    }
}
impl<'a, T> Unbox for &'a Box<T> {
    type Out = &'a T;
    fn unbox(self) -> &'a T {
        self
    }
}
impl<'a, T> Unbox for &'a mut Box<T> {
    type Out = &'a mut T;
    fn unbox(self) -> &'a mut T {
        self
    }
}

/// Index of a zoo type, 0..NT.
pub type Tid = u8;
pub const NT: u8 = 29;
/// Number of routine zoo types (all but the 70 400-bit one, which has its own enumerations).
pub const NT_R: u8 = 20;
/// The routine zoo types: everything except the 70 400-bit one (which has its own enumerations).
pub const ROUTINE_TIDS: [Tid; 28] = [0, 1, 2, 3, 4, 5, 6, 7, 8, 9, 10, 11, 12, 13, 14, 15, 16, 17, 18, 19, 21, 22, 23, 24, 25, 26, 27, 28];
/// The routine fixed types.
pub const ROUTINE_FIXED: [Tid; 26] = [0, 1, 2, 3, 4, 5, 6, 7, 8, 9, 10, 11, 12, 13, 14, 15, 18, 19, 21, 22, 23, 24, 25, 26, 27, 28];
/// The fixed zoo types (tid 18 was added after 16/17 had been taken by Bvd/Bv; the numbering is
/// kept stable because replay files store it).
pub const FIXED_TIDS: [Tid; 27] = [0, 1, 2, 3, 4, 5, 6, 7, 8, 9, 10, 11, 12, 13, 14, 15, 18, 19, 20, 21, 22, 23, 24, 25, 26, 27, 28];
/// The 70 400-bit fixed type: operations on it cost three orders of magnitude more than on the
/// crate's aliases, so generators pick it rarely and sweeps sample its lengths.
pub const TID_HUGE: Tid = 20;
pub const TID_D: Tid = 16;
pub const TID_A: Tid = 17;

pub const NAMES: [&str; 29] = [
    "Bvf<u8,1>", "Bvf<u8,2>", "Bvf<u8,3>", "Bvf<u8,9>", "Bvf<u8,17>", "Bvf<u16,1>", "Bvf<u16,3>",
    "Bvf<u32,1>", "Bvf<u32,3>", "Bvf<u64,1>", "Bvf<u64,2>", "Bvf<u64,3>", "Bvf<u128,1>",
    "Bvf<u128,2>", "Bvf<usize,1>", "Bvf<usize,2>", "Bvd", "Bv", "Bvf<u32,80>", "Bvf<u16,10>", "Bvf<u64,1100>", "Bvf<u8,0>", "Bvf<u64,0>",
    "Bvf<u64,4>", "Bvf<u64,5>", "Bvf<u64,6>", "Bvf<u64,7>", "Bvf<u64,8>", "Bvf<u128,3>",
];
/// Storage word width in bits (Bvd and Bv: 64).
pub const WORD_BITS: [usize; 29] = [8, 8, 8, 8, 8, 16, 16, 32, 32, 64, 64, 64, 128, 128, 64, 64, 64, 64, 32, 16, 64, 8, 64, 64, 64, 64, 64, 64, 128];
/// Number of words for fixed types (0 for Bvd / Bv).
pub const NWORDS: [usize; 29] = [1, 2, 3, 9, 17, 1, 3, 1, 3, 1, 2, 3, 1, 2, 1, 2, 0, 0, 80, 10, 1100, 0, 0, 4, 5, 6, 7, 8, 3];
/// Inline capacity of `Bv` on this (64-bit) platform.
pub const BV_INLINE: usize = 128;

/// Capacity of a fixed type, `None` for the unbounded ones.
pub fn fixed_cap(t: Tid) -> Option<usize> {
    if is_fixed(t) {
        Some(WORD_BITS[t as usize] * NWORDS[t as usize])
    } else {
        None
    }
}

pub fn is_fixed(t: Tid) -> bool {
    t != TID_D && t != TID_A
}

/// `z_match!(z, v => expr)`: run `expr` with `v` bound to the concrete vector inside `z`
/// (`z` may be `Z`, `&Z` or `&mut Z`).  The body is instantiated once per zoo type.
#[macro_export]
macro_rules! z_match {
    ($z:expr, $v:ident => $body:expr) => {
        match $z {
            $crate::Z::F8x1($v) => $body,
            $crate::Z::F8x2($v) => $body,
            $crate::Z::F8x3($v) => $body,
            $crate::Z::F8x9($v) => $body,
            $crate::Z::F8x17($v) => $body,
            $crate::Z::F16x1($v) => $body,
            $crate::Z::F16x3($v) => $body,
            $crate::Z::F32x1($v) => $body,
            $crate::Z::F32x3($v) => $body,
            $crate::Z::F64x1($v) => $body,
            $crate::Z::F64x2($v) => $body,
            $crate::Z::F64x3($v) => $body,
            $crate::Z::F128x1($v) => $body,
            $crate::Z::F128x2($v) => $body,
            $crate::Z::Fszx1($v) => $body,
            $crate::Z::Fszx2($v) => $body,
            $crate::Z::D($v) => $body,
            $crate::Z::A($v) => $body,
            $crate::Z::F32x80($v) => $body,
            $crate::Z::F16x10($v) => $body,
            $crate::Z::F64x1100(b) => {
                #[allow(unused_mut)]
                let mut $v = $crate::Unbox::unbox(b);
                $body
            }
            $crate::Z::F8x0($v) => $body,
            $crate::Z::F64x0($v) => $body,
            $crate::Z::F64x4($v) => $body,
            $crate::Z::F64x5($v) => $body,
            $crate::Z::F64x6($v) => $body,
            $crate::Z::F64x7($v) => $body,
            $crate::Z::F64x8($v) => $body,
            $crate::Z::F128x3($v) => $body,
        }
    };
}

/// `tid_match!(tid, T => expr)`: run `expr` with the type alias `T` bound to the zoo type `tid`.
#[macro_export]
macro_rules! tid_match {
    ($t:expr, $T:ident => $body:expr) => {
        match $t {
            0 => { type $T = $crate::F8x1; $body }
            1 => { type $T = $crate::F8x2; $body }
            2 => { type $T = $crate::F8x3; $body }
            3 => { type $T = $crate::F8x9; $body }
            4 => { type $T = $crate::F8x17; $body }
            5 => { type $T = $crate::F16x1; $body }
            6 => { type $T = $crate::F16x3; $body }
            7 => { type $T = $crate::F32x1; $body }
            8 => { type $T = $crate::F32x3; $body }
            9 => { type $T = $crate::F64x1; $body }
            10 => { type $T = $crate::F64x2; $body }
            11 => { type $T = $crate::F64x3; $body }
            12 => { type $T = $crate::F128x1; $body }
            13 => { type $T = $crate::F128x2; $body }
            14 => { type $T = $crate::Fszx1; $body }
            15 => { type $T = $crate::Fszx2; $body }
            16 => { type $T = $crate::Bvd; $body }
            17 => { type $T = $crate::Bv; $body }
            18 => { type $T = $crate::F32x80; $body }
            19 => { type $T = $crate::F16x10; $body }
            20 => { type $T = $crate::F64x1100; $body }
            21 => { type $T = $crate::F8x0; $body }
            22 => { type $T = $crate::F64x0; $body }
            23 => { type $T = $crate::F64x4; $body }
            24 => { type $T = $crate::F64x5; $body }
            25 => { type $T = $crate::F64x6; $body }
            26 => { type $T = $crate::F64x7; $body }
            27 => { type $T = $crate::F64x8; $body }
            28 => { type $T = $crate::F128x3; $body }
            _ => unreachable!("bad tid"),
        }
    };
}

// ------------------------------------------------------------------------------------------------
// Native unsigned integers
// ------------------------------------------------------------------------------------------------

#[derive(Clone, Copy, Debug, PartialEq, Eq, Hash, Serialize, Deserialize, PartialOrd, Ord)]
pub enum NatTy {
    U8,
    U16,
    U32,
    U64,
    U128,
    Usize,
}

pub const NAT_TYS: [NatTy; 6] = [NatTy::U8, NatTy::U16, NatTy::U32, NatTy::U64, NatTy::U128, NatTy::Usize];

impl NatTy {
    pub fn bits(self) -> usize {
        match self {
            NatTy::U8 => 8,
            NatTy::U16 => 16,
            NatTy::U32 => 32,
            NatTy::U64 => 64,
            NatTy::U128 => 128,
            NatTy::Usize => usize::BITS as usize,
        }
    }
    pub fn maxv(self) -> u128 {
        if self.bits() == 128 {
            u128::MAX
        } else {
            (1u128 << self.bits()) - 1
        }
    }
    pub fn name(self) -> &'static str {
        match self {
            NatTy::U8 => "u8",
            NatTy::U16 => "u16",
            NatTy::U32 => "u32",
            NatTy::U64 => "u64",
            NatTy::U128 => "u128",
            NatTy::Usize => "usize",
        }
    }
}

/// A native unsigned integer of a given type (value always `<= ty.maxv()`).
#[derive(Clone, Copy, Debug, PartialEq, Eq, Hash, Serialize, Deserialize)]
pub struct Nat {
    pub ty: NatTy,
    #[serde(with = "crate::model::u128_str")]
    pub v: u128,
}

impl Nat {
    pub fn new(ty: NatTy, v: u128) -> Nat {
        Nat { ty, v: v & ty.maxv() }
    }
}

/// `natty_match!(ty, T => expr)`: run `expr` with the type alias `T` bound to the native type `ty`.
#[macro_export]
macro_rules! natty_match {
    ($t:expr, $T:ident => $body:expr) => {
        match $t {
            $crate::NatTy::U8 => { type $T = u8; $body }
            $crate::NatTy::U16 => { type $T = u16; $body }
            $crate::NatTy::U32 => { type $T = u32; $body }
            $crate::NatTy::U64 => { type $T = u64; $body }
            $crate::NatTy::U128 => { type $T = u128; $body }
            $crate::NatTy::Usize => { type $T = usize; $body }
        }
    };
}

/// `nat_match!(nat, k => expr)`: run `expr` with `k` bound to the value as its concrete native type.
#[macro_export]
macro_rules! nat_match {
    ($n:expr, $k:ident => $body:expr) => {
        match $n.ty {
            $crate::NatTy::U8 => { let $k = $n.v as u8; $body }
            $crate::NatTy::U16 => { let $k = $n.v as u16; $body }
            $crate::NatTy::U32 => { let $k = $n.v as u32; $body }
            $crate::NatTy::U64 => { let $k = $n.v as u64; $body }
            $crate::NatTy::U128 => { let $k = $n.v as u128; $body }
            $crate::NatTy::Usize => { let $k = $n.v as usize; $body }
        }
    };
}

// ------------------------------------------------------------------------------------------------
// Operator vocabulary shared by the dispatch tables
// ------------------------------------------------------------------------------------------------

#[derive(Clone, Copy, Debug, PartialEq, Eq, Hash, Serialize, Deserialize)]
pub enum BinOp {
    Add,
    Sub,
    Mul,
    Div,
    Rem,
    And,
    Or,
    Xor,
}
pub const BIN_OPS: [BinOp; 8] =
    [BinOp::Add, BinOp::Sub, BinOp::Mul, BinOp::Div, BinOp::Rem, BinOp::And, BinOp::Or, BinOp::Xor];

impl BinOp {
    pub fn sym(self) -> &'static str {
        match self {
            BinOp::Add => "+",
            BinOp::Sub => "-",
            BinOp::Mul => "*",
            BinOp::Div => "/",
            BinOp::Rem => "%",
            BinOp::And => "&",
            BinOp::Or => "|",
            BinOp::Xor => "^",
        }
    }
}

/// Which of the (up to six) syntactic forms of a binary operator is used.
#[derive(Clone, Copy, Debug, PartialEq, Eq, Hash, Serialize, Deserialize)]
pub enum Form {
    /// `&a op &b`
    RefRef,
    /// `a op &b`
    OwnRef,
    /// `&a op b`
    RefOwn,
    /// `a op b`
    OwnOwn,
    /// `a op= &b`
    AssignRef,
    /// `a op= b`
    AssignOwn,
}
pub const FORMS: [Form; 6] =
    [Form::RefRef, Form::OwnRef, Form::RefOwn, Form::OwnOwn, Form::AssignRef, Form::AssignOwn];

/// Expand one binary operator application in all six forms.  `$a` and `$b` are references;
/// owned forms clone first.  `$op`/`$opa` are the operator tokens, e.g. `+` and `+=`.
#[macro_export]
macro_rules! apply_forms {
    ($form:expr, $a:expr, $b:expr, $op:tt, $opa:tt) => {
        match $form {
            $crate::Form::RefRef => $a $op $b,
            $crate::Form::OwnRef => $a.clone() $op $b,
            $crate::Form::RefOwn => $a $op $b.clone(),
            $crate::Form::OwnOwn => $a.clone() $op $b.clone(),
            $crate::Form::AssignRef => { let mut t = $a.clone(); t $opa $b; t }
            $crate::Form::AssignOwn => { let mut t = $a.clone(); t $opa $b.clone(); t }
        }
    };
}

/// The six forms of a shift.
#[derive(Clone, Copy, Debug, PartialEq, Eq, Hash, Serialize, Deserialize)]
pub enum ShForm {
    /// `&a << k`
    RefVal,
    /// `a << k`
    OwnVal,
    /// `&a << &k`
    RefRef,
    /// `a << &k`
    OwnRef,
    /// `a <<= k`
    AssignVal,
    /// `a <<= &k`
    AssignRef,
}
pub const SH_FORMS: [ShForm; 6] =
    [ShForm::RefVal, ShForm::OwnVal, ShForm::RefRef, ShForm::OwnRef, ShForm::AssignVal, ShForm::AssignRef];

// ------------------------------------------------------------------------------------------------
// Subject: per-type access to the parts of the public API that are not in `BitVector`
// ------------------------------------------------------------------------------------------------

pub trait Subject: BitVector + Send + Sync + 'static {
    const TID: Tid;
    fn wrap(self) -> Z;
    /// Inverse of `wrap`; `None` if `z` holds another type.
    fn from_z(z: Z) -> Option<Self>;
    /// `uN::try_from(&self)` / `uN::try_from(self)`; value widened to u128.
    fn to_nat(&self, ty: NatTy, by_value: bool) -> Result<u128, ConvertionError>;
    /// `Self::try_from(x)` / `Self::try_from(&x)` (for Bvd/Bv: the infallible `From`).
    fn from_nat(n: Nat, by_ref: bool) -> Result<Self, ConvertionError>;
    /// `Self::try_from(&[J])` / `Self::from(&[J])`.
    fn from_slice(ty: NatTy, items: &[u128]) -> Result<Self, ConvertionError> {
        Self::from_slice_skewed(ty, items, 0)
    }
    /// Like `from_slice`, but the slice handed to the library starts `skew` elements into a
    /// larger buffer (so it is not aligned like a fresh allocation).
    fn from_slice_skewed(ty: NatTy, items: &[u128], skew: usize) -> Result<Self, ConvertionError>;
    /// `reserve(k)`; false if the type has no such method (fixed).
    fn reserve_x(&mut self, k: usize) -> bool;
    /// `shrink_to_fit()`; false if the type has no such method (fixed).
    fn shrink_x(&mut self) -> bool;
    /// Raw storage, for diagnostics only.
    fn raw(&self) -> String;
    /// `!self` (owned) or `!&self`.
    fn not_x(&self, owned: bool) -> Self;
    /// `<<` / `>>` in the given form with an amount of the given native type.
    fn shift_x(&self, left: bool, amt: Nat, form: ShForm) -> Self;
    /// `Self::new(parts of self.clone().into_inner())`; `None` for Bv (no such API).
    fn rebuild_inner(&self) -> Option<Self>;
    /// Storage mode for `Bv` (`Some(true)` = heap); `None` for other types. Classification only.
    fn is_heap(&self) -> Option<bool>;
    /// Use `self` as the RIGHT operand of same-type `|=` and `+=` on a fresh all-zero vector of
    /// length `l >= self.len()`; both results must be `self` zero-extended. (Same-type operators
    /// read the right operand's storage words directly, so this observes them.)
    fn rhs_probe(&self, l: usize) -> (Self, Self);
}

macro_rules! shift_body {
    ($self:ident, $left:ident, $amt:ident, $form:ident) => {
        $crate::nat_match!($amt, k => match ($left, $form) {
            (true, ShForm::RefVal) => $self << k,
            (true, ShForm::OwnVal) => $self.clone() << k,
            (true, ShForm::RefRef) => $self << &k,
            (true, ShForm::OwnRef) => $self.clone() << &k,
            (true, ShForm::AssignVal) => { let mut t = $self.clone(); t <<= k; t }
            (true, ShForm::AssignRef) => { let mut t = $self.clone(); t <<= &k; t }
            (false, ShForm::RefVal) => $self >> k,
            (false, ShForm::OwnVal) => $self.clone() >> k,
            (false, ShForm::RefRef) => $self >> &k,
            (false, ShForm::OwnRef) => $self.clone() >> &k,
            (false, ShForm::AssignVal) => { let mut t = $self.clone(); t >>= k; t }
            (false, ShForm::AssignRef) => { let mut t = $self.clone(); t >>= &k; t }
        })
    };
}

macro_rules! to_nat_body {
    ($self:ident, $ty:ident, $by_value:ident) => {
        match ($ty, $by_value) {
            (NatTy::U8, false) => u8::try_from($self).map(|x| x as u128),
            (NatTy::U8, true) => u8::try_from($self.clone()).map(|x| x as u128),
            (NatTy::U16, false) => u16::try_from($self).map(|x| x as u128),
            (NatTy::U16, true) => u16::try_from($self.clone()).map(|x| x as u128),
            (NatTy::U32, false) => u32::try_from($self).map(|x| x as u128),
            (NatTy::U32, true) => u32::try_from($self.clone()).map(|x| x as u128),
            (NatTy::U64, false) => u64::try_from($self).map(|x| x as u128),
            (NatTy::U64, true) => u64::try_from($self.clone()).map(|x| x as u128),
            (NatTy::U128, false) => u128::try_from($self),
            (NatTy::U128, true) => u128::try_from($self.clone()),
            (NatTy::Usize, false) => usize::try_from($self).map(|x| x as u128),
            (NatTy::Usize, true) => usize::try_from($self.clone()).map(|x| x as u128),
        }
    };
}

macro_rules! slice_body {
    ($ty:ident, $items:ident, $skew:ident, $conv:expr) => {
        match $ty {
            NatTy::U8 => { let v: Vec<u8> = std::iter::repeat(0x5a as u8).take($skew).chain($items.iter().map(|&x| x as u8)).collect(); let s: &[u8] = &v[$skew..]; $conv(s) }
            NatTy::U16 => { let v: Vec<u16> = std::iter::repeat(0x5a as u16).take($skew).chain($items.iter().map(|&x| x as u16)).collect(); let s: &[u16] = &v[$skew..]; $conv(s) }
            NatTy::U32 => { let v: Vec<u32> = std::iter::repeat(0x5a as u32).take($skew).chain($items.iter().map(|&x| x as u32)).collect(); let s: &[u32] = &v[$skew..]; $conv(s) }
            NatTy::U64 => { let v: Vec<u64> = std::iter::repeat(0x5a as u64).take($skew).chain($items.iter().map(|&x| x as u64)).collect(); let s: &[u64] = &v[$skew..]; $conv(s) }
            NatTy::U128 => { let v: Vec<u128> = std::iter::repeat(0x5au128).take($skew).chain($items.iter().map(|&x| x)).collect(); let s: &[u128] = &v[$skew..]; $conv(s) }
            NatTy::Usize => { let v: Vec<usize> = std::iter::repeat(0x5a as usize).take($skew).chain($items.iter().map(|&x| x as usize)).collect(); let s: &[usize] = &v[$skew..]; $conv(s) }
        }
    };
}

macro_rules! impl_subject_fixed {
    ($($tid:expr, $var:ident, $T:ty);+ $(;)?) => {$(
        impl Subject for $T {
            const TID: Tid = $tid;
            fn wrap(self) -> Z { Z::$var(self) }
            fn from_z(z: Z) -> Option<Self> { match z { Z::$var(v) => Some(v), _ => None } }
            fn to_nat(&self, ty: NatTy, by_value: bool) -> Result<u128, ConvertionError> {
                to_nat_body!(self, ty, by_value)
            }
            fn from_nat(n: Nat, by_ref: bool) -> Result<Self, ConvertionError> {
                if by_ref {
                    $crate::nat_match!(n, k => <$T>::try_from(&k))
                } else {
                    $crate::nat_match!(n, k => <$T>::try_from(k))
                }
            }
            fn from_slice_skewed(ty: NatTy, items: &[u128], skew: usize) -> Result<Self, ConvertionError> {
                slice_body!(ty, items, skew, <$T>::try_from)
            }
            fn reserve_x(&mut self, _k: usize) -> bool { false }
            fn shrink_x(&mut self) -> bool { false }
            fn raw(&self) -> String {
                let (d, l) = self.clone().into_inner();
                format!("Bvf{{len:{}, data:{:x?}}}", l, d)
            }
            fn not_x(&self, owned: bool) -> Self { if owned { !self.clone() } else { !self } }
            fn shift_x(&self, left: bool, amt: Nat, form: ShForm) -> Self {
                shift_body!(self, left, amt, form)
            }
            fn rebuild_inner(&self) -> Option<Self> {
                let (d, l) = self.clone().into_inner();
                Some(<$T>::new(d, l))
            }
            fn rhs_probe(&self, l: usize) -> (Self, Self) {
                let mut o = <Self as BitVector>::zeros(l);
                o |= self;
                let mut a = <Self as BitVector>::zeros(l);
                a += self;
                (o, a)
            }
            fn is_heap(&self) -> Option<bool> { None }
        }
    )+};
}

impl_subject_fixed! {
    0, F8x1, F8x1; 1, F8x2, F8x2; 2, F8x3, F8x3; 3, F8x9, F8x9; 4, F8x17, F8x17;
    5, F16x1, F16x1; 6, F16x3, F16x3; 7, F32x1, F32x1; 8, F32x3, F32x3;
    9, F64x1, F64x1; 10, F64x2, F64x2; 11, F64x3, F64x3; 12, F128x1, F128x1; 13, F128x2, F128x2;
    14, Fszx1, Fszx1; 15, Fszx2, Fszx2; 18, F32x80, F32x80; 19, F16x10, F16x10; 21, F8x0, F8x0; 22, F64x0, F64x0; 23, F64x4, F64x4; 24, F64x5, F64x5; 25, F64x6, F64x6; 26, F64x7, F64x7; 27, F64x8, F64x8; 28, F128x3, F128x3;
}

macro_rules! impl_subject_fixed_boxed {
    ($($tid:expr, $var:ident, $T:ty);+ $(;)?) => {$(
        impl Subject for $T {
            const TID: Tid = $tid;
            fn wrap(self) -> Z { Z::$var(Box::new(self)) }
            fn from_z(z: Z) -> Option<Self> { match z { Z::$var(v) => Some(*v), _ => None } }
            fn to_nat(&self, ty: NatTy, by_value: bool) -> Result<u128, ConvertionError> {
                to_nat_body!(self, ty, by_value)
            }
            fn from_nat(n: Nat, by_ref: bool) -> Result<Self, ConvertionError> {
                if by_ref {
                    $crate::nat_match!(n, k => <$T>::try_from(&k))
                } else {
                    $crate::nat_match!(n, k => <$T>::try_from(k))
                }
            }
            fn from_slice_skewed(ty: NatTy, items: &[u128], skew: usize) -> Result<Self, ConvertionError> {
                slice_body!(ty, items, skew, <$T>::try_from)
            }
            fn reserve_x(&mut self, _k: usize) -> bool { false }
            fn shrink_x(&mut self) -> bool { false }
            fn raw(&self) -> String {
                let (d, l) = self.clone().into_inner();
                format!("Bvf{{len:{}, data:{:x?}}}", l, d)
            }
            fn not_x(&self, owned: bool) -> Self { if owned { !self.clone() } else { !self } }
            fn shift_x(&self, left: bool, amt: Nat, form: ShForm) -> Self {
                shift_body!(self, left, amt, form)
            }
            fn rebuild_inner(&self) -> Option<Self> {
                let (d, l) = self.clone().into_inner();
                Some(<$T>::new(d, l))
            }
            fn rhs_probe(&self, l: usize) -> (Self, Self) {
                let mut o = <Self as BitVector>::zeros(l);
                o |= self;
                let mut a = <Self as BitVector>::zeros(l);
                a += self;
                (o, a)
            }
            fn is_heap(&self) -> Option<bool> { None }
        }
    )+};
}


impl_subject_fixed_boxed! { 20, F64x1100, F64x1100; }

impl Subject for Bvd {
    const TID: Tid = TID_D;
    fn wrap(self) -> Z { Z::D(self) }
    fn from_z(z: Z) -> Option<Self> { match z { Z::D(v) => Some(v), _ => None } }
    fn to_nat(&self, ty: NatTy, by_value: bool) -> Result<u128, ConvertionError> {
        to_nat_body!(self, ty, by_value)
    }
    fn from_nat(n: Nat, by_ref: bool) -> Result<Self, ConvertionError> {
        if by_ref {
            nat_match!(n, k => Ok(Bvd::from(&k)))
        } else {
            nat_match!(n, k => Ok(Bvd::from(k)))
        }
    }
    fn from_slice_skewed(ty: NatTy, items: &[u128], skew: usize) -> Result<Self, ConvertionError> {
        Ok(slice_body!(ty, items, skew, Bvd::from))
    }
    fn reserve_x(&mut self, k: usize) -> bool { self.reserve(k); true }
    fn shrink_x(&mut self) -> bool { self.shrink_to_fit(); true }
    fn raw(&self) -> String {
        let (d, l) = self.clone().into_inner();
        format!("Bvd{{len:{}, data:{:x?}}}", l, d)
    }
    fn not_x(&self, owned: bool) -> Self { if owned { !self.clone() } else { !self } }
    fn shift_x(&self, left: bool, amt: Nat, form: ShForm) -> Self {
        shift_body!(self, left, amt, form)
    }
    fn rebuild_inner(&self) -> Option<Self> {
        let (d, l) = self.clone().into_inner();
        Some(Bvd::new(d, l))
    }
    fn rhs_probe(&self, l: usize) -> (Self, Self) {
        let mut o = <Self as BitVector>::zeros(l);
        o |= self;
        let mut a = <Self as BitVector>::zeros(l);
        a += self;
        (o, a)
    }
    fn is_heap(&self) -> Option<bool> { None }
}

impl Subject for Bv {
    const TID: Tid = TID_A;
    fn wrap(self) -> Z { Z::A(self) }
    fn from_z(z: Z) -> Option<Self> { match z { Z::A(v) => Some(v), _ => None } }
    fn to_nat(&self, ty: NatTy, by_value: bool) -> Result<u128, ConvertionError> {
        to_nat_body!(self, ty, by_value)
    }
    fn from_nat(n: Nat, by_ref: bool) -> Result<Self, ConvertionError> {
        if by_ref {
            nat_match!(n, k => Ok(Bv::from(&k)))
        } else {
            nat_match!(n, k => Ok(Bv::from(k)))
        }
    }
    fn from_slice_skewed(ty: NatTy, items: &[u128], skew: usize) -> Result<Self, ConvertionError> {
        Ok(slice_body!(ty, items, skew, Bv::from))
    }
    fn reserve_x(&mut self, k: usize) -> bool { self.reserve(k); true }
    fn shrink_x(&mut self) -> bool { self.shrink_to_fit(); true }
    fn raw(&self) -> String { format!("{:x?}", self) }
    fn not_x(&self, owned: bool) -> Self { if owned { !self.clone() } else { !self } }
    fn shift_x(&self, left: bool, amt: Nat, form: ShForm) -> Self {
        shift_body!(self, left, amt, form)
    }
    fn rebuild_inner(&self) -> Option<Self> { None }
    fn rhs_probe(&self, l: usize) -> (Self, Self) {
        let mut o = <Self as BitVector>::zeros(l);
        o |= self;
        let mut a = <Self as BitVector>::zeros(l);
        a += self;
        (o, a)
    }
    fn is_heap(&self) -> Option<bool> { Some(matches!(self, Bv::Dynamic(_))) }
}

impl Z {
    pub fn tid(&self) -> Tid {
        fn t<T: Subject>(_: &T) -> Tid { T::TID }
        z_match!(self, v => t(v))
    }
    pub fn len(&self) -> usize {
        z_match!(self, v => v.len())
    }
    pub fn capacity(&self) -> usize {
        z_match!(self, v => BitVector::capacity(v))
    }
    pub fn raw(&self) -> String {
        z_match!(self, v => v.raw())
    }
}

/// Right-hand operand of a binary operator: a zoo vector or a native integer.
#[derive(Clone, Copy, Debug)]
pub enum RhsRef<'a> {
    V(&'a Z),
    N(Nat),
}

/// `cross!(cb; [A, B]; [C, D])` expands to `cb!(A, C); cb!(A, D); cb!(B, C); cb!(B, D);`.
#[macro_export]
macro_rules! cross {
    ($cb:ident; [$($l:ident),*]; $rs:tt) => { $( $crate::cross!(@row $cb; $l; $rs); )* };
    (@row $cb:ident; $l:ident; [$($r:ident),*]) => { $( $cb!($l, $r); )* };
}
