//! vcore: the type universe ("zoo"), dispatch macros, the `Subject` trait giving
//! generic code access to the non-trait parts of each implementation's public API,
//! and the bit-list reference model helpers.  Nothing here asserts anything.

pub mod model;
pub mod zoo;

pub use model::*;
pub use zoo::*;
