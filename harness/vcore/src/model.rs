//! Reference model: a bit vector is a list of booleans, index 0 least significant.
//! Numeric semantics use num-bigint (independent of bva).  The model never calls bva,
//! except for the three trusted bridge functions `build_canon`, `read_bits`, `bit`.

use crate::zoo::*;
use num_bigint::BigUint;
use serde::{Deserialize, Deserializer, Serialize, Serializer};
use std::fmt;

/// A list of bits, index 0 = least significant. Serialised as a binary literal string with the
/// MOST significant bit first (like `{:b}` output but keeping leading zeros), "" for empty.
#[derive(Clone, PartialEq, Eq, Hash, Default, PartialOrd, Ord)]
pub struct Bits(pub Vec<bool>);

impl fmt::Debug for Bits {
    fn fmt(&self, f: &mut fmt::Formatter<'_>) -> fmt::Result {
        write!(f, "Bits[{}]\"{}\"", self.0.len(), self.msb_string())
    }
}

impl Serialize for Bits {
    fn serialize<S: Serializer>(&self, s: S) -> Result<S::Ok, S::Error> {
        s.serialize_str(&self.msb_string())
    }
}

impl<'de> Deserialize<'de> for Bits {
    fn deserialize<D: Deserializer<'de>>(d: D) -> Result<Self, D::Error> {
        let s = String::deserialize(d)?;
        let mut v = Vec::with_capacity(s.len());
        for c in s.chars().rev() {
            match c {
                '0' => v.push(false),
                '1' => v.push(true),
                _ => return Err(serde::de::Error::custom("bad bit char")),
            }
        }
        Ok(Bits(v))
    }
}

pub mod u128_str {
    use serde::{Deserialize, Deserializer, Serializer};
    pub fn serialize<S: Serializer>(v: &u128, s: S) -> Result<S::Ok, S::Error> {
        s.serialize_str(&v.to_string())
    }
    pub fn deserialize<'de, D: Deserializer<'de>>(d: D) -> Result<u128, D::Error> {
        let s = String::deserialize(d)?;
        s.parse::<u128>().map_err(serde::de::Error::custom)
    }
}

impl Bits {
    pub fn new() -> Bits {
        Bits(Vec::new())
    }
    pub fn zeros(n: usize) -> Bits {
        Bits(vec![false; n])
    }
    pub fn ones(n: usize) -> Bits {
        Bits(vec![true; n])
    }
    pub fn len(&self) -> usize {
        self.0.len()
    }
    pub fn is_empty(&self) -> bool {
        self.0.is_empty()
    }
    pub fn msb_string(&self) -> String {
        self.0.iter().rev().map(|&b| if b { '1' } else { '0' }).collect()
    }
    /// From the low `n` bits of a u128 (n may exceed 128: zero extended).
    pub fn from_u128(v: u128, n: usize) -> Bits {
        Bits((0..n).map(|i| i < 128 && (v >> i) & 1 == 1).collect())
    }
    /// Low 128 bits as an integer.
    pub fn low_u128(&self) -> u128 {
        let mut r = 0u128;
        for (i, &b) in self.0.iter().enumerate().take(128) {
            if b {
                r |= 1u128 << i;
            }
        }
        r
    }
    pub fn from_big(v: &BigUint, n: usize) -> Bits {
        Bits((0..n).map(|i| v.bit(i as u64)).collect())
    }
    pub fn to_big(&self) -> BigUint {
        let mut bytes = vec![0u8; (self.0.len() + 7) / 8];
        for (i, &b) in self.0.iter().enumerate() {
            if b {
                bytes[i / 8] |= 1 << (i % 8);
            }
        }
        BigUint::from_bytes_le(&bytes)
    }
    /// Index of the highest set bit plus one.
    pub fn significant(&self) -> usize {
        self.0.iter().rposition(|&b| b).map_or(0, |p| p + 1)
    }
    pub fn is_zero(&self) -> bool {
        !self.0.iter().any(|&b| b)
    }
    pub fn popcount(&self) -> usize {
        self.0.iter().filter(|&&b| b).count()
    }
    /// Bit i, treating the list as zero-extended.
    pub fn at(&self, i: usize) -> bool {
        self.0.get(i).copied().unwrap_or(false)
    }
    /// Resized copy (truncate or zero-extend).
    pub fn zext(&self, n: usize) -> Bits {
        Bits((0..n).map(|i| self.at(i)).collect())
    }
    /// Little-endian bytes, ceil(len/8) of them, surplus bits zero.
    pub fn to_bytes_le(&self) -> Vec<u8> {
        let mut bytes = vec![0u8; (self.0.len() + 7) / 8];
        for (i, &b) in self.0.iter().enumerate() {
            if b {
                bytes[i / 8] |= 1 << (i % 8);
            }
        }
        bytes
    }
    pub fn from_bytes_le(bytes: &[u8]) -> Bits {
        Bits((0..bytes.len() * 8).map(|i| (bytes[i / 8] >> (i % 8)) & 1 == 1).collect())
    }
    /// Minimal-digit lower-case hex of the value ("0" for zero / empty).
    pub fn hex(&self) -> String {
        let sig = self.significant();
        if sig == 0 {
            return "0".to_string();
        }
        let nd = (sig + 3) / 4;
        let mut s = String::with_capacity(nd);
        for d in (0..nd).rev() {
            let mut x = 0u32;
            for j in 0..4 {
                if self.at(d * 4 + j) {
                    x |= 1 << j;
                }
            }
            s.push(std::char::from_digit(x, 16).unwrap());
        }
        s
    }
    /// Minimal-digit binary of the value ("0" for zero / empty).
    pub fn bin(&self) -> String {
        let sig = self.significant();
        if sig == 0 {
            return "0".to_string();
        }
        (0..sig).rev().map(|i| if self.0[i] { '1' } else { '0' }).collect()
    }
    /// 64-bit words, ceil(len/64) of them.
    pub fn words64(&self) -> Vec<u64> {
        let mut w = vec![0u64; (self.0.len() + 63) / 64];
        for (i, &b) in self.0.iter().enumerate() {
            if b {
                w[i / 64] |= 1 << (i % 64);
            }
        }
        w
    }
}

pub fn bit(b: bool) -> Bit {
    if b {
        Bit::One
    } else {
        Bit::Zero
    }
}

pub fn unbit(b: Bit) -> bool {
    b == Bit::One
}

/// Canonical construction: `zeros(n)` then `set(i, One)` for every set bit. Trusted bridge.
pub fn build_canon<T: BitVector>(bits: &Bits) -> T {
    let mut v = T::zeros(bits.len());
    for (i, &b) in bits.0.iter().enumerate() {
        if b {
            v.set(i, Bit::One);
        }
    }
    v
}

/// Read-back through `len()` and `get(i)` only. Trusted bridge.
pub fn read_bits<T: BitVector>(v: &T) -> Bits {
    Bits((0..v.len()).map(|i| v.get(i) == Bit::One).collect())
}

pub fn read_bits_z(z: &Z) -> Bits {
    crate::z_match!(z, v => read_bits(v))
}

pub fn build_canon_z(t: Tid, bits: &Bits) -> Z {
    crate::tid_match!(t, T => build_canon::<T>(bits).wrap())
}

pub fn pow2(n: usize) -> BigUint {
    BigUint::from(1u8) << n
}
