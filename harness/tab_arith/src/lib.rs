//! Dispatch table: `+ - *` for every (LHS type x RHS type/native) x form.
//! Each arm is only the library call; panics propagate to the caller.
use vcore::*;

pub fn apply(l: &Z, r: RhsRef<'_>, op: BinOp, form: Form) -> Z {
    match r {
        RhsRef::V(r) => z_match!(l, a => z_match!(r, b => match op {
            BinOp::Add => apply_forms!(form, a, b, +, +=).wrap(),
            BinOp::Sub => apply_forms!(form, a, b, -, -=).wrap(),
            BinOp::Mul => apply_forms!(form, a, b, *, *=).wrap(),
            _ => unreachable!("tab_arith: not an arithmetic operator"),
        })),
        RhsRef::N(n) => z_match!(l, a => nat_match!(n, k => match op {
            BinOp::Add => apply_forms!(form, a, (&k), +, +=).wrap(),
            BinOp::Sub => apply_forms!(form, a, (&k), -, -=).wrap(),
            BinOp::Mul => apply_forms!(form, a, (&k), *, *=).wrap(),
            _ => unreachable!("tab_arith: not an arithmetic operator"),
        })),
    }
}

/// `&a op &a` with BOTH operands being the very same object (aliased references).
pub fn apply_self(l: &Z, op: BinOp) -> Z {
    z_match!(l, a => match op {
        BinOp::Add => (a + a).wrap(),
        BinOp::Sub => (a - a).wrap(),
        BinOp::Mul => (a * a).wrap(),
        _ => unreachable!("wrong table"),
    })
}
