//! Dispatch table: `/ %` for every (LHS type x RHS type/native) x form, and `div_rem`.
use vcore::*;

pub fn apply(l: &Z, r: RhsRef<'_>, op: BinOp, form: Form) -> Z {
    match r {
        RhsRef::V(r) => z_match!(l, a => z_match!(r, b => match op {
            BinOp::Div => apply_forms!(form, a, b, /, /=).wrap(),
            BinOp::Rem => apply_forms!(form, a, b, %, %=).wrap(),
            _ => unreachable!("tab_div: not a division operator"),
        })),
        RhsRef::N(n) => z_match!(l, a => nat_match!(n, k => match op {
            BinOp::Div => apply_forms!(form, a, (&k), /, /=).wrap(),
            BinOp::Rem => apply_forms!(form, a, (&k), %, %=).wrap(),
            _ => unreachable!("tab_div: not a division operator"),
        })),
    }
}

pub trait DivRemBy<B>: Sized {
    fn dr(&self, b: &B) -> (Self, Self);
}
macro_rules! dr {
    ($l:ident, $r:ident) => {
        impl DivRemBy<$r> for $l {
            fn dr(&self, b: &$r) -> (Self, Self) { self.div_rem::<$r>(b) }
        }
    };
}
cross!(dr;
    [F8x1, F8x2, F8x3, F8x9, F8x17, F16x1, F16x3, F32x1, F32x3, F64x1, F64x2, F64x3, F128x1, F128x2, Fszx1, Fszx2, F32x80, F16x10, F64x1100, F8x0, F64x0, F64x4, F64x5, F64x6, F64x7, F64x8, F128x3, Bvd, Bv];
    [F8x1, F8x2, F8x3, F8x9, F8x17, F16x1, F16x3, F32x1, F32x3, F64x1, F64x2, F64x3, F128x1, F128x2, Fszx1, Fszx2, F32x80, F16x10, F64x1100, F8x0, F64x0, F64x4, F64x5, F64x6, F64x7, F64x8, F128x3, Bvd, Bv]);

/// `l.div_rem(&r)` -> (quotient, remainder)
pub fn div_rem(l: &Z, r: &Z) -> (Z, Z) {
    z_match!(l, a => z_match!(r, b => { let (q, m) = a.dr(b); (q.wrap(), m.wrap()) }))
}

/// `&a op &a` with BOTH operands being the very same object (aliased references).
pub fn apply_self(l: &Z, op: BinOp) -> Z {
    z_match!(l, a => match op {
        BinOp::Div => (a / a).wrap(),
        BinOp::Rem => (a % a).wrap(),
        _ => unreachable!("wrong table"),
    })
}
