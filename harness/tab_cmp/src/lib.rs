//! Dispatch table: all comparison operators for every ordered pair of zoo types.
use std::cmp::Ordering;
use vcore::*;

#[derive(Clone, Copy, Debug, PartialEq, Eq)]
pub struct CmpOut {
    pub eq: bool,
    pub ne: bool,
    pub lt: bool,
    pub le: bool,
    pub gt: bool,
    pub ge: bool,
    pub partial: Option<Ordering>,
}

pub fn compare(l: &Z, r: &Z) -> CmpOut {
    z_match!(l, a => z_match!(r, b => CmpOut {
        eq: a == b,
        ne: a != b,
        lt: a < b,
        le: a <= b,
        gt: a > b,
        ge: a >= b,
        partial: a.partial_cmp(b),
    }))
}

/// Only `==` (cheap; used by batteries).
pub fn eq(l: &Z, r: &Z) -> bool {
    z_match!(l, a => z_match!(r, b => a == b))
}
