//! Dispatch table: From/TryFrom between every ordered pair of zoo types, by reference and
//! (where the impl exists) by value.
use vcore::*;

pub trait ConvTo<T>: Sized {
    /// `T::try_from(&self)` / `T::from(&self)`
    fn conv_ref(&self) -> Result<T, ConvertionError>;
    /// `T::try_from(self)` / `T::from(self)`; `None` when no by-value impl exists (Bvf -> Bvf).
    fn conv_val(self) -> Option<Result<T, ConvertionError>>;
}

macro_rules! ff {
    ($l:ident, $r:ident) => {
        impl ConvTo<$r> for $l {
            fn conv_ref(&self) -> Result<$r, ConvertionError> { <$r>::try_from(self) }
            fn conv_val(self) -> Option<Result<$r, ConvertionError>> { None }
        }
    };
}
cross!(ff;
    [F8x1, F8x2, F8x3, F8x9, F8x17, F16x1, F16x3, F32x1, F32x3, F64x1, F64x2, F64x3, F128x1, F128x2, Fszx1, Fszx2, F32x80, F16x10, F64x1100, F8x0, F64x0, F64x4, F64x5, F64x6, F64x7, F64x8, F128x3];
    [F8x1, F8x2, F8x3, F8x9, F8x17, F16x1, F16x3, F32x1, F32x3, F64x1, F64x2, F64x3, F128x1, F128x2, Fszx1, Fszx2, F32x80, F16x10, F64x1100, F8x0, F64x0, F64x4, F64x5, F64x6, F64x7, F64x8, F128x3]);

macro_rules! fx {
    ($l:ident, $r:ident) => {
        // fixed -> dynamic/auto: infallible From, both forms
        impl ConvTo<$r> for $l {
            fn conv_ref(&self) -> Result<$r, ConvertionError> { Ok(<$r>::from(self)) }
            fn conv_val(self) -> Option<Result<$r, ConvertionError>> { Some(Ok(<$r>::from(self))) }
        }
        // dynamic/auto -> fixed: TryFrom, both forms
        impl ConvTo<$l> for $r {
            fn conv_ref(&self) -> Result<$l, ConvertionError> { <$l>::try_from(self) }
            fn conv_val(self) -> Option<Result<$l, ConvertionError>> { Some(<$l>::try_from(self)) }
        }
    };
}
cross!(fx;
    [F8x1, F8x2, F8x3, F8x9, F8x17, F16x1, F16x3, F32x1, F32x3, F64x1, F64x2, F64x3, F128x1, F128x2, Fszx1, Fszx2, F32x80, F16x10, F64x1100, F8x0, F64x0, F64x4, F64x5, F64x6, F64x7, F64x8, F128x3];
    [Bvd, Bv]);

macro_rules! xx {
    ($l:ident, $r:ident) => {
        impl ConvTo<$r> for $l {
            fn conv_ref(&self) -> Result<$r, ConvertionError> { Ok(<$r>::from(self)) }
            fn conv_val(self) -> Option<Result<$r, ConvertionError>> { Some(Ok(<$r>::from(self))) }
        }
    };
}
cross!(xx; [Bvd, Bv]; [Bvd, Bv]);

/// Convert `src` to zoo type `dst`. `None`: this form does not exist in the API.
pub fn convert(src: &Z, dst: Tid, by_value: bool) -> Option<Result<Z, ConvertionError>> {
    z_match!(src, a => tid_match!(dst, T => {
        if by_value {
            ConvTo::<T>::conv_val(a.clone()).map(|r| r.map(Subject::wrap))
        } else {
            Some(ConvTo::<T>::conv_ref(a).map(Subject::wrap))
        }
    }))
}
