#![no_main]
//! Coverage-guided exploration of operation histories (C03 / C07 / C18). The first input byte
//! selects the property (alphabet + invariants); the rest is decoded into a history.
use libfuzzer_sys::fuzz_target;
use vprops::fuzzglue::run_case;
use vprops::props::hist::{C03, C07, C18};

fuzz_target!(|data: &[u8]| {
    if data.is_empty() {
        return;
    }
    let mut u = arbitrary::Unstructured::new(&data[1..]);
    // FUZZ_MODE pins the property (used by the driver); otherwise the first byte chooses
    let mode = match std::env::var("FUZZ_MODE").ok().as_deref() {
        Some("C03") => 0,
        Some("C07") => 1,
        Some("C18") => 2,
        _ => data[0] % 3,
    };
    let h = vprops::decode::history(&mut u, mode);
    match mode {
        0 => run_case(&C03, &h),
        1 => run_case(&C07, &h),
        _ => run_case(&C18, &h),
    }
});
