#![no_main]
use libfuzzer_sys::fuzz_target;
use vprops::fuzzglue::run_case;

fuzz_target!(|data: &[u8]| {
    let mut u = arbitrary::Unstructured::new(data);
    let c = vprops::decode::c15(&mut u);
    run_case(&vprops::props::c15::C15, &c);
});
