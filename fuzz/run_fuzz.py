#!/usr/bin/env python3
"""E3: coverage-guided libFuzzer campaign for one property (thorough tier only).

  run_fuzz.py <ID> <seed> [runs-per-instance]

Properties with a fuzz target: C03, C07, C18 (hist), C17 (iter), C15 (text), C13 (bytes).
For any other id this is a no-op (exit 0, no evidence).

exit 0: no violation   exit 1: VIOLATION line printed (minimised, re-confirmed replay file)
exit 2: infrastructure (build failure, libFuzzer timeout/OOM, unexplained crash)
"""
import glob
import json
import os
import re
import shutil
import subprocess
import sys
import tempfile

HERE = os.path.dirname(os.path.abspath(__file__))
ROOT = os.path.dirname(HERE)
TARGETS = {"C03": "hist", "C07": "hist", "C18": "hist", "C17": "iter", "C15": "text", "C13": "bytes"}
INSTANCES = 4
ENV = dict(os.environ, CARGO_NET_OFFLINE="true")


def log(m):
    print(m, file=sys.stderr, flush=True)


def main():
    if len(sys.argv) < 3:
        print(__doc__)
        return 2
    pid = sys.argv[1]
    seed = int(sys.argv[2]) or 1
    target = TARGETS.get(pid)
    if target is None:
        return 0
    # executions per instance: the history target runs a whole operation sequence with a battery
    # after every step under ASan (about 250 exec/s), the others are much cheaper
    default_runs = {"hist": 40000, "iter": 150000, "text": 300000, "bytes": 150000}[target]
    runs = int(sys.argv[3]) if len(sys.argv) > 3 else default_runs
    b = subprocess.run(["cargo", "+nightly", "fuzz", "build", "--fuzz-dir", HERE, target], cwd=HERE, env=ENV, stdout=subprocess.PIPE, stderr=subprocess.STDOUT, text=True)
    if b.returncode != 0:
        log("fuzz build failed:\n" + "\n".join(b.stdout.splitlines()[-40:]))
        return 2
    binary = os.path.join(HERE, "target", "x86_64-unknown-linux-gnu", "release", target)
    work = tempfile.mkdtemp(prefix="bvfuzz-%s-" % pid, dir=os.path.join(HERE))
    try:
        replay_dir = os.path.join(work, "replays")
        os.makedirs(replay_dir)
        procs = []
        for i in range(INSTANCES):
            corpus = os.path.join(work, "corpus%d" % i)
            arts = os.path.join(work, "artifacts%d" % i) + "/"
            os.makedirs(corpus)
            os.makedirs(arts)
            seeds = os.path.join(HERE, "seeds", target)
            cmd = [binary, corpus]
            if os.path.isdir(seeds) and os.listdir(seeds):
                cmd.append(seeds)
            cmd += ["-seed=%d" % (seed * 1000 + i + 1), "-runs=%d" % runs, "-len_control=0", "-max_len=2048", "-use_value_profile=1", "-timeout=60", "-rss_limit_mb=4096", "-print_final_stats=1", "-artifact_prefix=" + arts]
            env = dict(ENV, FUZZ_MODE=pid, FUZZ_REPLAY_DIR=replay_dir)
            # output goes to a file: with pipes the instances that are not being read block once
            # the pipe buffer is full (libFuzzer prints one line per new corpus unit)
            logf = open(os.path.join(work, "log%d.txt" % i), "w")
            procs.append((i, subprocess.Popen(cmd, cwd=work, env=env, stdout=logf, stderr=subprocess.STDOUT, text=True), logf))
        total_exec = 0
        cov = 0
        corpus_units = 0
        crashed = []
        infra = False
        for i, p, logf in procs:
            p.wait()
            logf.close()
            out = open(os.path.join(work, "log%d.txt" % i), errors="replace").read()
            m = re.search(r"stat::number_of_executed_units:\s*(\d+)", out)
            if m:
                total_exec += int(m.group(1))
            covs = re.findall(r"cov: (\d+)", out)
            if covs:
                cov = max(cov, int(covs[-1]))
            corpus_units += len(os.listdir(os.path.join(work, "corpus%d" % i)))
            if p.returncode != 0:
                arts = glob.glob(os.path.join(work, "artifacts%d" % i, "*"))
                if "FUZZ-VIOLATION" in out:
                    crashed.append((i, out, arts))
                else:
                    infra = True
                    log("instance %d ended abnormally without a property violation (timeout/oom/other):\n%s" % (i, "\n".join(out.splitlines()[-15:])))
        code = 0
        lines = []
        if crashed:
            # minimise + re-confirm each distinct replay file with the plain harness (both profiles)
            seen = set()
            for f in sorted(glob.glob(os.path.join(replay_dir, "*.json"))):
                sig = json.load(open(f)).get("signature")
                if sig in seen:
                    continue
                seen.add(sig)
                dst_dir = os.path.join(ROOT, "replays", pid)
                os.makedirs(dst_dir, exist_ok=True)
                dst = os.path.join(dst_dir, os.path.basename(f))
                shutil.copy(f, dst)
                mn = subprocess.run([os.path.join(ROOT, "harness", "target-dbg", "dbg", "bvv"), "minimize", pid, dst], env=dict(ENV, VERIF_ROOT=ROOT), stdout=subprocess.PIPE, stderr=subprocess.PIPE, text=True)
                if mn.returncode != 0:
                    log("minimiser: " + mn.stderr.strip()[-400:])
                rp = subprocess.run([os.path.join(ROOT, "check"), pid, "--replay", dst], cwd=ROOT, env=ENV, stdout=subprocess.PIPE, stderr=subprocess.PIPE, text=True)
                if rp.returncode == 1:
                    lines.append(rp.stdout)
                    code = 1
                else:
                    log("fuzz finding %s did not reproduce in the plain harness (not reported)" % dst)
                    infra = True
        for l in lines:
            sys.stdout.write(l)
        ev = {"target": target, "instances": INSTANCES, "runs_per_instance": runs, "executed_units": total_exec, "edge_coverage": cov, "corpus_units": corpus_units, "findings": len(lines), "seed_base": seed * 1000}
        part = os.path.join(ROOT, "evidence", ".partial")
        os.makedirs(part, exist_ok=True)
        json.dump(ev, open(os.path.join(part, "%s.fuzz.json" % pid), "w"))
        if code == 0 and infra:
            return 2
        return code
    finally:
        shutil.rmtree(work, ignore_errors=True)


if __name__ == "__main__":
    sys.exit(main())
