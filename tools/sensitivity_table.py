#!/usr/bin/env python3
"""Regenerate the sensitivity tables of DESIGN.md (between <!-- SENS-BEGIN --> and <!-- SENS-END -->)
from /verif/mutants/results.jsonl (latest result per mutant x check wins)."""
import glob
import json
import os
import re

ROOT = os.path.dirname(os.path.dirname(os.path.abspath(__file__)))


def latest():
    res = {}
    for l in open(os.path.join(ROOT, "mutants", "results.jsonl")):
        d = json.loads(l)
        if "check" not in d or d.get("exit") not in (0, 1):
            continue
        key = (d["patch"].replace(".patch", ""), d["check"])
        res[key] = d
    return res


def cell(d):
    if d is None:
        return "not run"
    if d["detected"]:
        m = re.search(r"engine=(\S+) profile=(\S+) signature=(\S+)", d["first"])
        if m:
            return "**caught** (%s, %s) `%s`" % (m.group(1).replace("-enumeration", "").replace("-proptest", "").replace("-regress", ""), m.group(2), m.group(3)[:70])
        return "**caught**"
    return "missed"


def main():
    res = latest()
    out = []
    kf = json.load(open(os.path.join(ROOT, "known_findings.json")))["findings"]
    out.append("### 5.1 Reverting each of the twelve fixes (the original defects)\n")
    out.append("| revert of | defect | checks run (quick tier) |")
    out.append("|---|---|---|")
    for i, f in enumerate(kf, 1):
        name = "revert-D%02d" % i
        cells = ["%s: %s" % (k[1], cell(d)) for k, d in sorted(res.items()) if k[0] == name]
        out.append("| D%d %s | %s | %s |" % (i, f["commit"], f["what"][:110].replace("|", "\\|"), "<br>".join(cells).replace("|", "\\|") if False else "<br>".join(c.replace("|", "\\|") for c in cells)))
    out.append("")
    out.append("### 5.2 Changes seeded by independent sub-agents (`/verif/seeded/`)\n")
    out.append("Each was produced from the property text and a scratch worktree only, compiles, passes the crate's unedited suite (235 unit + 49 doc tests) and comes with a demonstration that fails with the change and passes without it - all re-confirmed here by `tools/confirm_seeded.py` before the change was kept.\n")
    out.append("| change | what it does / what it needs to manifest | result of the property's quick check (and others run) |")
    out.append("|---|---|---|")
    for d in sorted(glob.glob(os.path.join(ROOT, "seeded", "*"))):
        name = os.path.basename(d)
        try:
            meta = json.load(open(os.path.join(d, "meta.json")))
        except Exception:
            continue
        summ = meta.get("summary") or ""
        if not summ:
            notes = open(os.path.join(d, "notes.md")).read() if os.path.exists(os.path.join(d, "notes.md")) else ""
            lines = [l.strip("# *-").strip() for l in notes.splitlines() if l.strip() and not l.startswith("```")]
            summ = " ".join(lines[:4])[:260]
        cells = ["%s: %s" % (k[1], cell(r)) for k, r in sorted(res.items()) if k[0] == name]
        out.append("| %s%s | %s | %s |" % (name, " (release only)" if meta.get("needs_release_profile") else "", summ.replace("|", "\\|")[:300], "<br>".join(c.replace("|", "\\|") for c in cells) or "not run"))
    out.append("")
    out.append("### 5.3 Hand-written changes (`/verif/mutants/M*.patch`)\n")
    suite = {}
    p = os.path.join(ROOT, "mutants", "hand-suite.log")
    if os.path.exists(p):
        for l in open(p):
            if "::" in l:
                n, r = l.split("::", 1)
                m = re.search(r"(\d+) passed; (\d+) failed", r)
                suite[n.strip()] = ("passes the crate's suite" if m and m.group(2) == "0" else "crate's own suite already fails (%s tests)" % (m.group(2) if m else "?"))
    out.append("| change | description | crate's own suite | checks run (quick tier) |")
    out.append("|---|---|---|---|")
    for f in sorted(glob.glob(os.path.join(ROOT, "mutants", "M*.patch"))):
        name = os.path.basename(f).replace(".patch", "")
        desc = open(f.replace(".patch", ".txt")).read().strip() if os.path.exists(f.replace(".patch", ".txt")) else ""
        cells = ["%s: %s" % (k[1], cell(r)) for k, r in sorted(res.items()) if k[0] == name]
        out.append("| %s | %s | %s | %s |" % (name, desc.replace("|", "\\|")[:220], suite.get(name, "?"), "<br>".join(c.replace("|", "\\|") for c in cells) or "not run"))
    text = "\n".join(out) + "\n"
    dp = os.path.join(ROOT, "DESIGN.md")
    s = open(dp).read()
    if "<!-- SENS-BEGIN -->" in s:
        s = re.sub(r"<!-- SENS-BEGIN -->.*<!-- SENS-END -->", lambda m: "<!-- SENS-BEGIN -->\n" + text + "<!-- SENS-END -->", s, flags=re.S)
        open(dp, "w").write(s)
        print("DESIGN.md updated")
    else:
        print(text)


if __name__ == "__main__":
    main()
