#!/usr/bin/env python3
"""Independent confirmation of a seeded property-breaking change produced by a sub-agent.

  tools/confirm_seeded.py <src_dir> <name> <property>     e.g. /tmp/mut/C05/m1 C05-m1 C05

In a scratch worktree of /repo (under /tmp, removed afterwards) it checks that
  1. patch.diff applies to HEAD,
  2. the crate's unedited test suite passes with the change (235 unit + doc tests),
  3. demo.rs (copied to tests/demo.rs) FAILS with the change,
  4. demo.rs PASSES without it,
and stores patch.diff, demo.rs, notes.md and meta.json under /verif/seeded/<name>/ .
Exit 0 iff all four hold.
"""
import json
import os
import re
import shutil
import subprocess
import sys
import time

ROOT = os.path.dirname(os.path.dirname(os.path.abspath(__file__)))
ENV = dict(os.environ, CARGO_NET_OFFLINE="true")


def sh(cmd, cwd=None, timeout=3600):
    p = subprocess.run(cmd, cwd=cwd, env=ENV, stdout=subprocess.PIPE, stderr=subprocess.STDOUT, text=True, timeout=timeout)
    return p.returncode, p.stdout


def main():
    src, name, prop = sys.argv[1], sys.argv[2], sys.argv[3]
    wt = "/tmp/conf-" + name
    sh(["git", "-C", "/repo", "worktree", "remove", "--force", wt])
    shutil.rmtree(wt, ignore_errors=True)
    rc, out = sh(["git", "-C", "/repo", "worktree", "add", "--detach", wt, "HEAD"])
    meta = {"name": name, "property": prop, "source": "independent sub-agent (saw only the property text and a scratch worktree)", "confirmed_at": time.strftime("%Y-%m-%dT%H:%M:%SZ", time.gmtime())}
    ok = False
    try:
        head = sh(["git", "-C", wt, "rev-parse", "HEAD"])[1].strip()
        meta["repo_head"] = head
        notes = ""
        if os.path.exists(os.path.join(src, "notes.md")):
            notes = open(os.path.join(src, "notes.md")).read()
        # the demonstration is tried in the debug profile first, then with --release
        demo_cmd = ["cargo", "test", "--offline", "--test", "demo"]
        rc, out = sh(["git", "-C", wt, "apply", os.path.join(src, "patch.diff")])
        meta["patch_applies"] = rc == 0
        if rc != 0:
            meta["error"] = out[-500:]
            return 1
        rc, out = sh(["cargo", "test", "--workspace", "--no-fail-fast", "--offline"], cwd=wt)
        results = re.findall(r"test result: (\w+)\. (\d+) passed; (\d+) failed", out)
        meta["suite_with_change"] = {"exit": rc, "results": results}
        suite_ok = rc == 0 and results and all(r[0] == "ok" for r in results) and int(results[0][1]) == 235
        shutil.copy(os.path.join(src, "demo.rs"), os.path.join(wt, "tests_demo.rs.tmp"))
        os.makedirs(os.path.join(wt, "tests"), exist_ok=True)
        shutil.move(os.path.join(wt, "tests_demo.rs.tmp"), os.path.join(wt, "tests", "demo.rs"))
        rc1, out1 = sh(demo_cmd, cwd=wt)
        meta["demo_with_change"] = {"exit": rc1, "cmd": " ".join(demo_cmd), "tail": out1[-600:]}
        sh(["git", "-C", wt, "apply", "-R", os.path.join(src, "patch.diff")])
        rc2, out2 = sh(demo_cmd, cwd=wt)
        meta["demo_without_change"] = {"exit": rc2, "tail": out2[-300:]}
        # if the demo did not discriminate in debug, try release (profile-dependent mutants)
        if not (rc1 != 0 and rc2 == 0):
            sh(["git", "-C", wt, "apply", os.path.join(src, "patch.diff")])
            demo_cmd_r = demo_cmd + ["--release"]
            rc1, out1 = sh(demo_cmd_r, cwd=wt)
            sh(["git", "-C", wt, "apply", "-R", os.path.join(src, "patch.diff")])
            rc2, out2 = sh(demo_cmd_r, cwd=wt)
            meta["demo_release_retry"] = {"with": rc1, "without": rc2}
            if rc1 != 0 and rc2 == 0:
                demo_cmd = demo_cmd_r
                meta["needs_release_profile"] = True
        ok = bool(suite_ok and rc1 != 0 and rc2 == 0)
        meta["confirmed"] = ok
        meta["what_i_ran"] = ["git apply patch.diff (scratch worktree of /repo HEAD)", "cargo test --workspace --no-fail-fast --offline  -> must pass (235 unit + doc tests)", " ".join(demo_cmd) + "  with the change -> must fail", "same without the change -> must pass"]
        m = re.search(r"(?is)(needs?|manifest|trigger)[^\n]*\n(.{0,800})", notes)
        meta["needs_to_manifest"] = (m.group(0)[:900] if m else notes[:900])
        dst = os.path.join(ROOT, "seeded", name)
        os.makedirs(dst, exist_ok=True)
        for f in ["patch.diff", "demo.rs", "notes.md"]:
            if os.path.exists(os.path.join(src, f)):
                shutil.copy(os.path.join(src, f), os.path.join(dst, f))
        json.dump(meta, open(os.path.join(dst, "meta.json"), "w"), indent=1)
        print(name, "confirmed" if ok else "NOT confirmed", json.dumps({k: meta[k] for k in ("suite_with_change",)}), "demo with/without:", rc1, rc2)
        return 0 if ok else 1
    finally:
        sh(["git", "-C", "/repo", "worktree", "remove", "--force", wt])
        shutil.rmtree(wt, ignore_errors=True)


if __name__ == "__main__":
    sys.exit(main())
