#!/usr/bin/env python3
"""Sensitivity runs: apply a property-breaking patch to /repo, run the given checks, undo.

  tools/mutants.py <patch> <ID> [<ID>...]        one mutant
  tools/mutants.py --table <file.json>           many: [{"patch": "...", "ids": ["C01", ...]}, ...]
  options: --tier quick|thorough (default quick)

/repo must be clean before and is restored (git checkout -- .) afterwards, whatever happens.
Results are appended to /verif/mutants/results.jsonl (one JSON object per mutant x check).
"""
import json
import os
import subprocess
import sys
import time

ROOT = os.path.dirname(os.path.dirname(os.path.abspath(__file__)))
REPO = "/repo"


def sh(cmd, **kw):
    return subprocess.run(cmd, stdout=subprocess.PIPE, stderr=subprocess.STDOUT, text=True, **kw)


def repo_clean():
    return sh(["git", "-C", REPO, "status", "--porcelain", "--untracked-files=no"]).stdout.strip() == ""


def run_one(patch, ids, tier):
    out = []
    if not repo_clean():
        print("refusing: /repo has uncommitted changes")
        sys.exit(2)
    patch = os.path.abspath(patch)
    label = os.path.basename(patch)
    if label == "patch.diff":
        label = os.path.basename(os.path.dirname(patch))
    r = sh(["git", "-C", REPO, "apply", patch])
    if r.returncode != 0:
        print("patch does not apply: %s\n%s" % (patch, r.stdout))
        return [{"patch": label, "error": "does not apply"}]
    try:
        for pid in ids:
            t0 = time.time()
            r = sh([os.path.join(ROOT, "check"), pid, tier], cwd=ROOT, env=dict(os.environ, VERIF_EVIDENCE_DIR="/tmp/mutant-evidence"))
            viol = [l for l in r.stdout.splitlines() if l.startswith("VIOLATION ")]
            detail = ""
            lines = r.stdout.splitlines()
            for i, l in enumerate(lines):
                if l.startswith("VIOLATION "):
                    detail = " | ".join(x.strip() for x in lines[i + 1:i + 3])[:400]
                    break
            rec = {"patch": label, "check": pid, "tier": tier, "exit": r.returncode, "detected": r.returncode == 1 and bool(viol), "violations": len(viol), "first": detail, "wall_s": round(time.time() - t0, 1)}
            out.append(rec)
            print(json.dumps(rec), flush=True)
            if r.returncode not in (0, 1):
                print(r.stdout[-2000:])
    finally:
        sh(["git", "-C", REPO, "checkout", "--", "."])
        assert repo_clean()
    with open(os.path.join(ROOT, "mutants", "results.jsonl"), "a") as f:
        for rec in out:
            f.write(json.dumps(rec) + "\n")
    return out


def main():
    args = sys.argv[1:]
    tier = "quick"
    if "--tier" in args:
        i = args.index("--tier")
        tier = args[i + 1]
        del args[i:i + 2]
    if args and args[0] == "--table":
        table = json.load(open(args[1]))
        for row in table:
            run_one(row["patch"], row["ids"], tier)
    else:
        run_one(args[0], args[1:], tier)
    # leave the harness built against the clean tree again
    sh([os.path.join(ROOT, "check"), "--build"], cwd=ROOT)


if __name__ == "__main__":
    main()
